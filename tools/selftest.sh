#!/bin/bash
# Must-fail corpus: every patch in selftest/mutants and every seeded change under seeded/*/patch.diff
# whose meta.json says "detected" is applied in turn to a scratch worktree of /repo's HEAD (under
# /tmp, removed at the end), and the property's check, pointed at that tree with --dir, must exit 1
# with a VIOLATION line. /repo itself is not touched. To keep the corpus affordable only the functions of
# the packages a patch touches are re-verified (HVC_ONLY_PKGS), and a run stops scheduling solver jobs
# after three obligations have failed (HVC_FAILFAST), without the search for a failing input that a
# normal run adds (HVC_NOSEARCH: the direct replay of a solver model is kept).
# usage: selftest.sh [filter]
set -u
cd /verif
F=${1:-}
bad=0
W=$(mktemp -d /tmp/hvc-selftest.XXXX); rmdir $W
git -C /repo worktree add -q --detach $W HEAD || exit 2
trap 'git -C /repo worktree remove --force $W >/dev/null 2>&1' EXIT
run() { # prop patch
  local P=$1 patch=$2
  if [ -n "${SELFTEST_SKIP:-}" ] && grep -q "$(basename $(dirname $patch))/$(basename $patch)" "$SELFTEST_SKIP" 2>/dev/null; then return; fi
  git -C $W apply "/verif/$patch" 2>/dev/null || { echo "SKIPPED  $P $patch (does not apply to the current tree)"; return; }
  # the packages the patch touches (directories relative to the module root): only their functions are re-verified
  pk=$(grep '^+++ b/' "/verif/$patch" | sed 's|^+++ b/||; s|/[^/]*$||' | sort -u | tr '\n' ',' | sed 's/,$//')
  out=$(HVC_NO_EVIDENCE=1 HVC_NORESCUE=1 HVC_FAILFAST=3 HVC_NOSEARCH=1 HVC_ONLY_PKGS="$pk" ./bin/hvc check $P --dir $W 2>&1); rc=$?
  git -C $W checkout -- .
  v=$(echo "$out" | grep -c "^VIOLATION property=$P ")
  if [ $rc -eq 1 ] && [ $v -ge 1 ]; then
    echo "caught   $P $(basename $(dirname $patch))/$(basename $patch): $(echo "$out" | grep '^VIOLATION' | head -1 | sed "s|$W|<tree>|g" | cut -c1-170)"
  else
    echo "MISSED   $P $patch (rc=$rc)"; bad=1
  fi
}
for m in selftest/mutants/*.patch; do
  case "$m" in *"$F"*) ;; *) continue;; esac
  P=$(basename $m | cut -d_ -f1)
  run $P $m
done
for d in seeded/*/; do
  case "$d" in *"$F"*) ;; *) continue;; esac
  [ -f $d/meta.json ] || continue
  det=$(python3 -c "import json,sys; m=json.load(open('$d/meta.json')); print(m.get('check_result',''))")
  P=$(python3 -c "import json,sys; m=json.load(open('$d/meta.json')); print(m.get('breaks_property',''))")
  case "$det" in *detected*|*caught*) run $P ${d}patch.diff;; *) echo "skip     $P $d (recorded as not detected)";; esac
done
exit $bad
