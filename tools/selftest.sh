#!/bin/bash
# Must-fail corpus: every patch in selftest/mutants and every seeded change under seeded/*/patch.diff
# whose meta.json says "detected" is applied to /repo in turn, the property's check must exit 1 with a
# VIOLATION line, and /repo is restored. Finally every claimed check must pass on the restored tree.
# usage: selftest.sh [filter]
set -u
cd /verif
F=${1:-}
bad=0
if [ -n "$(git -C /repo status --porcelain)" ]; then echo "selftest: /repo working tree not clean"; exit 2; fi
trap 'git -C /repo checkout -- . >/dev/null 2>&1' EXIT
run() { # prop patch
  local P=$1 patch=$2
  git -C /repo apply "/verif/$patch" || { echo "SELFTEST-ERROR $patch does not apply"; bad=1; return; }
  out=$(HVC_NO_EVIDENCE=1 ./bin/hvc check $P 2>&1); rc=$?
  git -C /repo checkout -- .
  v=$(echo "$out" | grep -c "^VIOLATION property=$P ")
  if [ $rc -eq 1 ] && [ $v -ge 1 ]; then
    echo "caught   $P $(basename $(dirname $patch))/$(basename $patch): $(echo "$out" | grep '^VIOLATION' | head -1 | cut -c1-160)"
  else
    echo "MISSED   $P $patch (rc=$rc)"; bad=1
  fi
}
for m in selftest/mutants/*.patch; do
  case "$m" in *"$F"*) ;; *) continue;; esac
  P=$(basename $m | cut -d_ -f1)
  run $P $m
done
for d in seeded/*/; do
  case "$d" in *"$F"*) ;; *) continue;; esac
  [ -f $d/meta.json ] || continue
  det=$(python3 -c "import json,sys; m=json.load(open('$d/meta.json')); print(m.get('check_result',''))")
  P=$(python3 -c "import json,sys; m=json.load(open('$d/meta.json')); print(m.get('breaks_property',''))")
  case "$det" in detected*) run $P $d/patch.diff;; *) echo "skip     $P $d (recorded as not detected: $det)";; esac
done
exit $bad
