#!/bin/bash
# usage: try_seed.sh <property> <seed dir containing patch.diff and demo_test.go>
# 1. confirms in a scratch worktree: existing tests pass with the patch; demo fails with it and passes without it
# 2. applies the patch to /repo, runs the check, restores /repo
set -u
if [ -n "$(git -C /repo status --porcelain)" ]; then echo "try_seed: /repo working tree not clean (commit or stash first: the script restores with git checkout)"; exit 2; fi
export GOFLAGS=-mod=mod GOPROXY=off GOSUMDB=off GOTOOLCHAIN=local
P=$1; D=$(readlink -f $2)
dir=$(head -3 $D/demo_test.go | grep -o 'dir: [^ ]*' | head -1 | cut -d' ' -f2)
[ -z "$dir" ] && { echo "no dir comment in demo"; exit 2; }
W=$(mktemp -d /tmp/seedchk.XXXX); rmdir $W
git -C /repo worktree add -q --detach $W HEAD || exit 2
trap 'git -C /repo worktree remove --force $W >/dev/null 2>&1; git -C /repo checkout -- . >/dev/null 2>&1' EXIT
cp $D/demo_test.go $W/$dir/zz_seed_demo_test.go
( cd $W/$dir && go test -count=1 -vet=off -run 'Seed|Demo' . >$W/demo_without.log 2>&1 ); rc_without=$?
( cd $W && git apply $D/patch.diff ) || { echo "patch does not apply"; exit 2; }
( cd $W/$dir && go test -count=1 -vet=off -run 'Seed|Demo' . >$W/demo_with.log 2>&1 ); rc_with=$?
rm $W/$dir/zz_seed_demo_test.go
( cd $W && go build ./... && go test -count=1 -vet=off ./... 2>&1 | grep -v "^ok\|no test files" | grep -v "TestEOF\|TestHasEOF\|TestRead\b" >$W/suite.log ); 
fails=$(grep -c "^--- FAIL" $W/suite.log)
known=$(grep "^--- FAIL" $W/suite.log | grep -c "TestEOF\|TestHasEOF\|TestRead ")
echo "demo without patch: rc=$rc_without (want 0); with patch: rc=$rc_with (want !=0); suite FAIL lines with patch: $fails"
grep "^--- FAIL" $W/suite.log | head -5
git -C /repo apply $D/patch.diff || { echo "patch does not apply to /repo"; exit 2; }
( cd /verif && HVC_NO_EVIDENCE=1 /verif/bin/hvc check $P 2>&1 | grep -v conda | grep "^VIOLATION\|^hvc: property\|replay:" | cut -c1-300 )
git -C /repo checkout -- .
