#!/usr/bin/env python3
"""Regenerates /verif/MANIFEST.json from the table below and validates it."""
import json, subprocess, sys

HOOK_COMMITS = subprocess.run(
    "git -C /repo log --format=%H --grep='^verif:'", shell=True, capture_output=True, text=True).stdout.split()

ALL = ["C%02d" % i for i in range(1, 21)]

CLAIMS = json.load(open("/verif/tools/claims.json"))

NOT_APPLICABLE = {
 "C01": "not claimed: the round trip runs through compress/flate (an encode/decode inverse of an external package) and through the writer's and reader's goroutines and channels; sequential per-function contracts reach only compressor.writeBlock, which is claimed under C08. No check for the end-to-end statement was built.",
 "C02": "not claimed: a history property of a reader whose blocks arrive from read-ahead goroutines redirected through a channel; the planned ghost flat-stream model of the sequential path (DESIGN.md section 4 C02) was not built, and the worker path is outside sequential contracts.",
 "C03": "not claimed as a check of its own: the cache side (Get/Put/Peek contracts, ownership hand-over) is decided under C14, including the known finding that FIFO.Get leaves a used block indexed, which is exactly the C03 failure (reader returns block 3's bytes for block 0; selftest/demos/C14_fifo_wrong_data_test.go.txt). The reader side (cacheSwap/cachePut/keep under read-ahead) was not put under contract.",
 "C05": "not claimed: the record codec (bam.Writer.Write against bam.Reader.Read) was not put under a byte-layout contract; only the decoding side is proved total (C11). No check was built.",
 "C09": "liveness of calls blocking on other goroutines and goroutine leaks: not expressible as per-function contracts (DESIGN.md section 6)",
 "C12": "inter-goroutine delivery order and WaitGroup durability: outside sequential per-function contracts (DESIGN.md section 6)",
 "C13": "not claimed: ChunkReader.Read and the chunk-limited bam.Reader depend on the position bookkeeping of bgzf.Reader (C02), which is not under contract; the clamp arithmetic alone was not built into a check.",
}

PENDING = "not claimed yet: contracts for this property are not discharged on the unchanged tree at this commit (work in progress, see DESIGN.md section 7)"

def main():
    checks = []
    for pid in ALL:
        if pid not in CLAIMS:
            continue
        c = CLAIMS[pid]
        cat, text, note, ref, tech = c["category"], c["text"], c["note"], c["ref"], c["technique"]
        checks.append({
            "property_id": pid,
            "quick_cmd": "/verif/bin/hvc check %s --tier quick" % pid,
            "thorough_cmd": "/verif/bin/hvc check %s --tier thorough" % pid,
            "evidence_file": "/verif/evidence/%s.json" % pid,
            "replay_cmd_template": "/verif/bin/hvc replay {path}",
            "engine": "hvc",
            "level_claimed": {"category": cat, "text": text, "design_ref": ref},
            "level_note": note,
            "technique": tech,
        })
    na = []
    for pid in ALL:
        if pid in CLAIMS:
            continue
        na.append({"property_id": pid, "reason": NOT_APPLICABLE.get(pid, PENDING)})
    m = {
        "version": 1,
        "setup_cmd": "cd /verif/engine && GOFLAGS=-mod=vendor GOPROXY=off GOSUMDB=off GOTOOLCHAIN=local go build -o /verif/bin/hvc .",
        "hooks": {
            "guard": "verif",
            "enable": "go build tag 'verif' (go/packages BuildFlags -tags=verif); the guarded files are comment-only contract files zz_contracts_verif.go, one per package",
            "baseline_off_cmd": "cd /repo && GOFLAGS=-mod=mod GOPROXY=off GOSUMDB=off go test -vet=off -count=1 ./...",
            "source_commits": HOOK_COMMITS,
            "add_only": True,
        },
        "engines": [{"name": "hvc", "path": "/verif/engine", "serves_properties": sorted(CLAIMS),
                     "kind_free_text": "contract-based deductive verifier for Go built here: contracts in //@ comments, go/ssa -> verification conditions -> z3-new/cvc5/z3 portfolio, counterexample replay through go test -overlay"}],
        "checks": checks,
        "not_applicable": na,
        "notes": "Known findings and fixed defects: /verif/known_findings.json. Must-fail corpus: /verif/selftest/mutants.",
    }
    json.dump(m, open("/verif/MANIFEST.json", "w"), indent=1)
    import jsonschema
    jsonschema.validate(m, json.load(open("/root/.vp/MANIFEST.schema.json")))
    print("MANIFEST.json written:", len(checks), "checks")

main()
