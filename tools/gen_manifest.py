#!/usr/bin/env python3
"""Regenerates /verif/MANIFEST.json from the table below and validates it."""
import json, subprocess, sys

HOOK_COMMITS = subprocess.run(
    "git -C /repo log --format=%H --grep='^verif:'", shell=True, capture_output=True, text=True).stdout.split()

ALL = ["C%02d" % i for i in range(1, 21)]

# id -> (category, text, level_note, design_ref, technique)
CLAIMS = {
 "C20": ("proof",
   "Every obligation generated from itf8.Len/Encode/Decode and ltf8.Len/Encode/Decode (postconditions against spec functions written from CRAM 2.3, bounds, frame) plus the round-trip lemmas is discharged for all 2^32 / 2^64 values and all buffers; no loop, no bound.",
   "Trusted: the hvc VC generator, go/ssa, the SMT solvers; math/bits.LeadingZeros8 by an assumed contract. The cram errorReader wrappers (itf8/ltf8/itf8slice over io.Reader) are not under contract.",
   "DESIGN.md section 4 C20",
   "contract-based deductive verification: weakest-precondition VCs over go/ssa in 64-bit bit-vector arithmetic, discharged by z3/cvc5"),
}

 "C16": ("proof",
   "Bin arithmetic of the BAI scheme (internal.BinFor, OverlappingBinsFor) and of every CSI geometry (csi.reg2bin, reg2bins with symbolic minShift/depth) is proved against a semantic specification (bin = deepest bin whose span contains the interval; list = exactly the bins whose span meets it), with the overlap=>membership lemma; all obligations (postconditions, loop invariants, termination, bounds, frames) are discharged for all inputs.",
   "Not yet under contract (so a change confined to them is NOT detected by this check): sam.Record.End/Len/Bin, sam.Cigar.Lengths/IsValid, CigarOpType.Consumes. Trusted: hvc VC generator, go/ssa, SMT solvers. Ghost sets/witness maps are specification-only state.",
   "DESIGN.md section 4 C16",
   "contract-based deductive verification: loop invariants with ghost element sets over go/ssa, 64-bit bit-vector VCs, z3/cvc5"),
 "C17": ("proof",
   "identity, squash, adjacent and the CompressorStrategy closure are proved for chunk lists of every length: output sorted and well-formed, every input chunk contained in an output chunk (ghost witness), adjacent covers no position outside the input (entry-state predicate inOld), neighbours separated (adjacent) or further apart than the threshold (compressor), squash is the single enclosing chunk, already-separated input is returned unchanged (idempotence), termination, in-place frame.",
   "Precondition assumed at the strategies: input sorted by begin offset and File offsets < 2^47, near in [0,2^62]. The call sites in internal.Index.MergeChunks / csi MergeChunks are not under contract. Trusted: hvc VC generator, go/ssa, SMT solvers.",
   "DESIGN.md section 4 C17",
   "contract-based deductive verification: quantified loop invariants with ghost witnesses over go/ssa, mathematical integers with no-overflow obligations, z3/cvc5"),
}

NOT_APPLICABLE = {
 "C09": "liveness of calls blocking on other goroutines and goroutine leaks: not expressible as per-function contracts (DESIGN.md section 6)",
 "C12": "inter-goroutine delivery order and WaitGroup durability: outside sequential per-function contracts (DESIGN.md section 6)",
}

PENDING = "not claimed yet: contracts for this property are not discharged on the unchanged tree at this commit (work in progress, see DESIGN.md section 7)"

def main():
    checks = []
    for pid in ALL:
        if pid not in CLAIMS:
            continue
        cat, text, note, ref, tech = CLAIMS[pid]
        checks.append({
            "property_id": pid,
            "quick_cmd": "/verif/bin/hvc check %s --tier quick" % pid,
            "thorough_cmd": "/verif/bin/hvc check %s --tier thorough" % pid,
            "evidence_file": "/verif/evidence/%s.json" % pid,
            "replay_cmd_template": "/verif/bin/hvc replay {path}",
            "engine": "hvc",
            "level_claimed": {"category": cat, "text": text, "design_ref": ref},
            "level_note": note,
            "technique": tech,
        })
    na = []
    for pid in ALL:
        if pid in CLAIMS:
            continue
        na.append({"property_id": pid, "reason": NOT_APPLICABLE.get(pid, PENDING)})
    m = {
        "version": 1,
        "setup_cmd": "cd /verif/engine && GOFLAGS=-mod=vendor GOPROXY=off GOSUMDB=off GOTOOLCHAIN=local go build -o /verif/bin/hvc .",
        "hooks": {
            "guard": "verif",
            "enable": "go build tag 'verif' (go/packages BuildFlags -tags=verif); the guarded files are comment-only contract files zz_contracts_verif.go, one per package",
            "baseline_off_cmd": "cd /repo && GOFLAGS=-mod=mod GOPROXY=off GOSUMDB=off go test -vet=off -count=1 ./...",
            "source_commits": HOOK_COMMITS,
            "add_only": True,
        },
        "engines": [{"name": "hvc", "path": "/verif/engine", "serves_properties": sorted(CLAIMS),
                     "kind_free_text": "contract-based deductive verifier for Go built here: contracts in //@ comments, go/ssa -> verification conditions -> z3-new/cvc5/z3 portfolio, counterexample replay through go test -overlay"}],
        "checks": checks,
        "not_applicable": na,
        "notes": "Known findings and fixed defects: /verif/known_findings.json. Must-fail corpus: /verif/selftest/mutants.",
    }
    json.dump(m, open("/verif/MANIFEST.json", "w"), indent=1)
    import jsonschema
    jsonschema.validate(m, json.load(open("/root/.vp/MANIFEST.schema.json")))
    print("MANIFEST.json written:", len(checks), "checks")

main()
