package main

// Random contract testing on the real code. Used only to find a concrete failing
// input for an obligation that has already failed when neither the solver's model
// nor the bounded instance search produced one (e.g. nonlinear goals, for which
// the solvers answer `unknown`): random inputs satisfying the preconditions are
// run through the real function and the postconditions are evaluated by Go.

import (
	"fmt"
	"go/types"
	"os"
	"path/filepath"
	"sort"
	"strings"

	"golang.org/x/tools/go/ssa"
)

const fuzzHelpers = `
func hvcRandInt(rng *rand.Rand, bits int, signed bool) int64 {
	var v int64
	switch rng.Intn(6) {
	case 0:
		v = int64(rng.Intn(4))
	case 1:
		v = int64(rng.Intn(17))
	case 2:
		v = int64(rng.Intn(300))
	case 3:
		v = int64(rng.Intn(1 << 16))
	case 4:
		v = rng.Int63() >> uint(rng.Intn(63))
	default:
		v = int64(1)<<uint(rng.Intn(bits)) + int64(rng.Intn(3)) - 1
	}
	if signed && rng.Intn(8) == 0 {
		v = -v
	}
	return v
}

// hvcForeignHidden: a struct type of another package that has unexported fields.
func hvcForeignHidden(t reflect.Type) bool {
	if t.Kind() != reflect.Struct || t.PkgPath() == "" || t.PkgPath() == hvcPkgPath {
		return false
	}
	for i := 0; i < t.NumField(); i++ {
		if t.Field(i).PkgPath != "" {
			return true
		}
	}
	return false
}

func hvcRandFill(rng *rand.Rand, v reflect.Value, depth int) {
	if !v.CanSet() {
		if !v.CanAddr() {
			return
		}
		v = reflect.NewAt(v.Type(), unsafe.Pointer(v.UnsafeAddr())).Elem()
	}
	switch v.Kind() {
	case reflect.Bool:
		v.SetBool(rng.Intn(2) == 0)
	case reflect.Int, reflect.Int8, reflect.Int16, reflect.Int32, reflect.Int64:
		v.SetInt(hvcRandInt(rng, v.Type().Bits()-1, true))
	case reflect.Uint, reflect.Uint8, reflect.Uint16, reflect.Uint32, reflect.Uint64:
		v.SetUint(uint64(hvcRandInt(rng, v.Type().Bits(), false)))
	case reflect.String:
		n := rng.Intn(5)
		b := make([]byte, n)
		for i := range b {
			b[i] = byte('a' + rng.Intn(26))
		}
		v.SetString(string(b))
	case reflect.Slice:
		if depth > 3 || rng.Intn(10) == 0 {
			return
		}
		n := rng.Intn(5)
		s := reflect.MakeSlice(v.Type(), n, n+rng.Intn(3))
		for i := 0; i < n; i++ {
			hvcRandFill(rng, s.Index(i), depth+1)
		}
		v.Set(s)
	case reflect.Array:
		for i := 0; i < v.Len(); i++ {
			hvcRandFill(rng, v.Index(i), depth+1)
		}
	case reflect.Struct:
		if hvcForeignHidden(v.Type()) {
			return // an object of another package with hidden state: left at its zero value
		}
		for i := 0; i < v.NumField(); i++ {
			hvcRandFill(rng, v.Field(i), depth+1)
		}
	case reflect.Ptr:
		if depth > 2 {
			return
		}
		if v.Type().Elem().Kind() == reflect.Struct && hvcForeignHidden(v.Type().Elem()) {
			return // cannot be constructed faithfully: left nil
		}
		p := reflect.New(v.Type().Elem())
		hvcRandFill(rng, p.Elem(), depth+1)
		v.Set(p)
	}
}
`

// fuzzSearch builds and runs the random test for function fn under contract fc.
func (v *Verifier) fuzzSearch(o *Obligation, fx *FnCtx, fn *ssa.Function, fc *FuncContract, outDir string, seed int) ReplayResult {
	res := ReplayResult{}
	if fn.Parent() != nil {
		return res // closures: not supported by the random tester
	}
	pkg := fx.pkgTypes()
	g := &goGen{fx: fx, pkg: pkg, specs: map[string]*SpecFunc{}, imports: map[string]string{}}
	sc := &goScope{vars: map[string]types.Type{}, rename: map[string]string{}}
	oldSc := &goScope{vars: map[string]types.Type{}, rename: map[string]string{}}
	sc.oldSc = oldSc
	var body strings.Builder
	var argNames []string
	for i, p := range fn.Params {
		vn := p.Name()
		if vn == "_" || vn == "" {
			vn = fmt.Sprintf("hvcArg%d", i)
		}
		if _, isIface := p.Type().Underlying().(*types.Interface); isIface {
			return res
		}
		if _, isSig := p.Type().Underlying().(*types.Signature); isSig {
			return res
		}
		fmt.Fprintf(&body, "\t\tvar %s %s\n\t\thvcRandFill(rng, reflect.ValueOf(&%s).Elem(), 0)\n\t\t_ = %s\n", vn, g.typeStr(p.Type()), vn, vn)
		sc.vars[vn] = p.Type()
		oldSc.vars[vn] = p.Type()
		argNames = append(argNames, vn)
		switch u := p.Type().Underlying().(type) {
		case *types.Slice:
			fmt.Fprintf(&body, "\t\told_%s := append(%s(nil), %s...)\n\t\t_ = old_%s\n", vn, g.typeStr(p.Type()), vn, vn)
			oldSc.rename[vn] = "old_" + vn
		case *types.Pointer:
			if _, isStruct := u.Elem().Underlying().(*types.Struct); isStruct {
				fmt.Fprintf(&body, "\t\tif %s == nil {\n\t\t\tcontinue\n\t\t}\n\t\told_%s_v := *%s\n\t\told_%s := &old_%s_v\n\t\t_ = old_%s\n", vn, vn, vn, vn, vn, vn)
				oldSc.rename[vn] = "old_" + vn
			}
		}
	}
	nreq := 0
	for _, c := range fc.Requires {
		code, _ := g.expr(c.Expr, sc)
		if g.err != nil {
			// a precondition that cannot be evaluated cannot be respected: give up
			return res
		}
		nreq++
		fmt.Fprintf(&body, "\t\tif ok := func() (ok bool) { defer func() { if recover() != nil { ok = false } }(); return %s }(); !ok {\n\t\t\tcontinue\n\t\t}\n", code)
	}
	body.WriteString("\t\ttried++\n")
	sig := fn.Signature
	var resNames []string
	for i := 0; i < sig.Results().Len(); i++ {
		rn := fmt.Sprintf("result%d", i)
		resNames = append(resNames, rn)
		fmt.Fprintf(&body, "\t\tvar %s %s\n\t\t_ = %s\n", rn, g.typeStr(sig.Results().At(i).Type()), rn)
	}
	var call string
	if sig.Recv() != nil {
		call = fmt.Sprintf("%s.%s(%s)", argNames[0], fn.Name(), strings.Join(argNames[1:], ", "))
	} else {
		call = fmt.Sprintf("%s(%s)", fn.Name(), strings.Join(argNames, ", "))
	}
	assign := ""
	if len(resNames) > 0 {
		assign = strings.Join(resNames, ", ") + " = "
	}
	// inputs are printed before the call (the call may modify them)
	fmt.Fprintf(&body, "\t\tinputs := fmt.Sprintf(\"%s\"%s)\n", fmtVerbs(argNames, nil), fmtArgs(argNames, nil))
	fmt.Fprintf(&body, "\t\tpanicked := func() (hvcP interface{}) {\n\t\t\tdefer func() { hvcP = recover() }()\n\t\t\t%s%s\n\t\t\treturn nil\n\t\t}()\n", assign, call)
	allowed := "false"
	if len(fc.Panics) > 0 {
		var conds []string
		for _, c := range fc.Panics {
			code, _ := g.expr(c.Expr, oldSc)
			if g.err != nil {
				return res
			}
			conds = append(conds, "("+code+")")
		}
		allowed = strings.Join(conds, " || ")
	}
	fmt.Fprintf(&body, "\t\tif panicked != nil {\n\t\t\tif %s {\n\t\t\t\tcontinue\n\t\t\t}\n\t\t\tfmt.Printf(\"HVC-REPLAY: reproduced: %s panicked: %%v | inputs: %%s\\n\", panicked, inputs)\n\t\t\treturn\n\t\t}\n", allowed, fn.Name())
	if len(resNames) == 1 {
		body.WriteString("\t\tresult := result0\n\t\t_ = result\n")
		sc.vars["result"] = sig.Results().At(0).Type()
	}
	for i := 0; i < sig.Results().Len(); i++ {
		sc.vars[resNames[i]] = sig.Results().At(i).Type()
		if n := sig.Results().At(i).Name(); n != "" && n != "_" {
			if _, clash := sc.vars[n]; !clash {
				fmt.Fprintf(&body, "\t\t%s := %s\n\t\t_ = %s\n", n, resNames[i], n)
				sc.vars[n] = sig.Results().At(i).Type()
			}
		}
	}
	nens := 0
	for _, c := range fc.Ensures {
		code, _ := g.expr(c.Expr, sc)
		if g.err != nil {
			g.err = nil
			continue
		}
		nens++
		fmt.Fprintf(&body, "\t\tif ok := func() (ok bool) { defer func() { if recover() != nil { ok = true } }(); return %s }(); !ok {\n\t\t\tfmt.Println(\"HVC-REPLAY: reproduced: clause is false on the real code:\", %q)\n\t\t\tfmt.Printf(\"HVC-REPLAY: inputs: %%s%s\\n\", inputs%s)\n\t\t\treturn\n\t\t}\n",
			code, c.Src, " "+fmtVerbs(nil, resNames), fmtArgs(nil, resNames))
	}
	if nens == 0 && len(fc.Panics) == 0 {
		// only panics can be observed
	}
	decls := g.specFuncDecls()
	if g.err != nil {
		return res
	}
	var sb strings.Builder
	fmt.Fprintf(&sb, "// hvc replay file (random contract test)\n// obligation: %s\n// kind: %s\n// %s\n// solver: %s (%s)\n// package: %s\n// function: %s\n\npackage %s\n\nimport (\n\t\"fmt\"\n\t\"math/rand\"\n\t\"reflect\"\n\t\"testing\"\n\t\"unsafe\"\n",
		o.Name, o.Kind, o.Desc, o.Solver, o.Status, pkg.Path(), fn.Name(), pkg.Name())
	var imps []string
	for p := range g.imports {
		imps = append(imps, p)
	}
	sort.Strings(imps)
	for _, p := range imps {
		switch p {
		case "fmt", "testing", "math/rand", "reflect", "unsafe":
			continue
		}
		fmt.Fprintf(&sb, "\t%s %q\n", g.imports[p], p)
	}
	sb.WriteString(")\n\nvar _ = unsafe.Pointer(nil)\n")
	sb.WriteString(decls)
	fmt.Fprintf(&sb, "\nconst hvcPkgPath = %q\n", pkg.Path())
	sb.WriteString(fuzzHelpers)
	fmt.Fprintf(&sb, "\nfunc TestHvcReplay(hvcT *testing.T) {\n\trng := rand.New(rand.NewSource(%d))\n\ttried := 0\n\tfor iter := 0; iter < 400000 && tried < 60000; iter++ {\n", seed+1)
	sb.WriteString(body.String())
	sb.WriteString("\t}\n\tfmt.Printf(\"HVC-REPLAY: not reproduced (%d random inputs satisfied the preconditions)\\n\", tried)\n}\n")
	_ = os.MkdirAll(outDir, 0o755)
	file := filepath.Join(outDir, sanitize(o.Name)+"_random_test.go")
	_ = os.WriteFile(file, []byte(sb.String()), 0o644)
	return v.runReplayFile(file, fn)
}
