package main

// Ghost state: variables declared in the contract, updated at named sites.

import (
	"strconv"
	"os"
	"fmt"
	"go/types"
	"sort"
	"strings"

	"golang.org/x/tools/go/ssa"
)

// ghostType parses a ghost variable type. map[K]V becomes a pure SMT array.
func (fx *FnCtx) ghostType(s string) (types.Type, bool) {
	if strings.HasPrefix(s, "map[") {
		k := strings.Index(s, "]")
		kt := fx.resolveType(s[4:k], fx.pkgTypes())
		vt := fx.resolveType(s[k+1:], fx.pkgTypes())
		if kt == nil || vt == nil {
			fx.fail("ghost type %q: unknown key or value type", s)
		}
		return types.NewMap(kt, vt), true
	}
	t := fx.resolveType(s, fx.pkgTypes())
	if t == nil {
		fx.fail("ghost type %q unknown", s)
	}
	return t, false
}

func (fx *FnCtx) ghostZero(t types.Type, isMap bool) Value {
	tc := fx.tc
	if isMap {
		m := t.(*types.Map)
		ks := tc.Layout(m.Key()).Leaves
		vs := tc.Layout(m.Elem()).Leaves
		if len(ks) != 1 || len(vs) != 1 {
			fx.fail("ghost map %v: key and value must be scalar", t)
		}
		as := ArraySort(ks[0].Sort, vs[0].Sort)
		return Value{T: t, L: []*Term{ConstArray(as, zeroOfSort(vs[0].Sort))}}
	}
	return tc.Zero(t)
}

func (fx *FnCtx) initGhost(st *State) {
	if fx.fc == nil {
		return
	}
	for _, g := range fx.fc.Ghost {
		t, isMap := fx.ghostType(g.Type)
		v := fx.ghostZero(t, isMap)
		if g.Init != nil {
			env := fx.entryEnv(st)
			sv := fx.evalSpec(env, g.Init)
			sv = fx.typed(sv, t)
			v = sv.V
			v.T = t
		}
		st.Ghost[g.Name] = v
	}
	// number append sites in source order
	fx.appendSites = map[ssa.Instruction]int{}
	var calls []*ssa.Call
	for _, b := range fx.fn.Blocks {
		for _, ins := range b.Instrs {
			if c, ok := ins.(*ssa.Call); ok {
				if bi, ok := c.Call.Value.(*ssa.Builtin); ok && bi.Name() == "append" {
					calls = append(calls, c)
				}
			}
		}
	}
	sort.SliceStable(calls, func(i, j int) bool { return calls[i].Pos() < calls[j].Pos() })
	for i, c := range calls {
		fx.appendSites[c] = i
	}
	// number the stores through pointers (not to local variables) in source order
	fx.storeSites = map[ssa.Instruction]int{}
	var stores []*ssa.Store
	for _, b := range fx.fn.Blocks {
		for _, ins := range b.Instrs {
			if s, ok := ins.(*ssa.Store); ok {
				if a, isAlloc := s.Addr.(*ssa.Alloc); isAlloc && !a.Heap {
					continue
				}
				stores = append(stores, s)
			}
		}
	}
	sort.SliceStable(stores, func(i, j int) bool { return stores[i].Pos() < stores[j].Pos() })
	for i, c := range stores {
		fx.storeSites[c] = i
	}
	// sites named by their source line: at stmt "<text of the line>" fires after the last store
	// (or append call, if the line has no store through a pointer) that the line compiles to
	fx.stmtSites = map[ssa.Instruction]string{}
	wanted := map[string]bool{}
	for _, ga := range fx.fc.GhostAt {
		if strings.HasPrefix(ga.Site, "stmt ") || strings.HasPrefix(ga.Site, "before stmt ") {
			wanted[ga.Site] = false
		}
	}
	if len(wanted) > 0 {
		last := map[string]ssa.Instruction{}
		consider := func(ins ssa.Instruction) {
			pos := fx.V.fset.Position(ins.Pos())
			if !pos.IsValid() {
				return
			}
			site := "stmt \"" + strings.Join(strings.Fields(sourceLine(pos.Filename, pos.Line)), " ") + "\""
			if _, ok := wanted[site]; !ok {
				return
			}
			rank := func(x ssa.Instruction) int {
				switch c := x.(type) {
				case *ssa.Store:
					return 3
				case *ssa.Call:
					if bi, ok := c.Call.Value.(*ssa.Builtin); ok && bi.Name() == "append" {
						return 2
					}
					return 1
				}
				return 0
			}
			if prev, ok := last[site]; ok && rank(prev) > rank(ins) {
				return
			}
			last[site] = ins
		}
		for _, b := range fx.fn.Blocks {
			for _, ins := range b.Instrs {
				switch t := ins.(type) {
				case *ssa.Store:
					if a, isAlloc := t.Addr.(*ssa.Alloc); isAlloc && !a.Heap {
						continue
					}
					if _, isIdx := t.Addr.(*ssa.IndexAddr); isIdx {
						if al, ok := t.Addr.(*ssa.IndexAddr).X.(*ssa.Alloc); ok && !al.Heap {
							continue // building a varargs array
						}
					}
					consider(ins)
				case *ssa.Call:
					if bi, ok := t.Call.Value.(*ssa.Builtin); ok && bi.Name() != "append" {
						continue
					}
					consider(ins) // append, or (lowest rank) an ordinary call: the site fires when it returns
				case *ssa.Return:
					consider(ins) // a return statement: the site fires just before the function returns
				}
			}
		}
		for site, ins := range last {
			fx.stmtSites[ins] = site
			wanted[site] = true
		}
		// "before stmt <text>": just before the first call the line compiles to
		fx.beforeSites = map[ssa.Instruction]string{}
		for _, b := range fx.fn.Blocks {
			for _, ins := range b.Instrs {
				c, ok := ins.(*ssa.Call)
				if !ok {
					continue
				}
				if _, isB := c.Call.Value.(*ssa.Builtin); isB {
					continue
				}
				pos := fx.V.fset.Position(ins.Pos())
				if !pos.IsValid() {
					continue
				}
				site := "before stmt \"" + strings.Join(strings.Fields(sourceLine(pos.Filename, pos.Line)), " ") + "\""
				if done, ok := wanted[site]; ok && !done {
					fx.beforeSites[ins] = site
					wanted[site] = true
				}
			}
		}
		for site, found := range wanted {
			if !found {
				fx.fail("ghost site %s does not exist (no store, append, call or return on a line with that text)", site)
			}
		}
	}
	if os.Getenv("HVC_SITES") != "" && fx.topLevel {
		for i, c := range calls {
			fmt.Printf("hvc: site append#%d at %s\n", i, fx.V.fset.Position(c.Pos()))
		}
		for i, c := range stores {
			fmt.Printf("hvc: site store#%d at %s\n", i, fx.V.fset.Position(c.Pos()))
		}
	}
	// every site must exist
	for _, ga := range fx.fc.GhostAt {
		switch {
		case ga.Site == "entry":
		case strings.HasPrefix(ga.Site, "append#"):
			var n int
			fmt.Sscanf(ga.Site, "append#%d", &n)
			if n >= len(calls) {
				fx.fail("ghost site %s does not exist (function has %d append calls)", ga.Site, len(calls))
			}
		case strings.HasPrefix(ga.Site, "store#"):
			var n int
			fmt.Sscanf(ga.Site, "store#%d", &n)
			if n >= len(stores) {
				fx.fail("ghost site %s does not exist (function has %d stores through pointers)", ga.Site, len(stores))
			}
		case strings.HasPrefix(ga.Site, "stmt "), strings.HasPrefix(ga.Site, "before stmt "):
		case strings.HasPrefix(ga.Site, "loop "):
		default:
			fx.fail("unknown ghost site %q", ga.Site)
		}
	}
}

// runGhost executes the ghost statements attached to site.
func (fx *FnCtx) runGhost(site string, st *State, env *Env) {
	if fx.fc == nil || !fx.topLevel {
		return
	}
	for _, ga := range fx.fc.GhostAt {
		if ga.Site != site {
			continue
		}
		ga.used++
		for _, gs := range ga.Stmts {
			if gs.Assert != nil {
				env.st = st
				cond := fx.evalBool(env, gs.Assert)
				pc := env.pc
				if pc == nil {
					pc = True
				}
				if gs.Assume {
					fx.root.noteOnce("ASSUMED in " + fx.fn.Name() + " at " + site + ": " + gs.Src)
					fx.assume(Implies(pc, cond))
					continue
				}
				name := fx.oblName(strings.ReplaceAll(site, " ", "") + ".assert")
				fx.addObl(name, "assert", pc, cond, nil, nil, "intermediate assertion at "+site+": "+gs.Src)
				fx.assume(Implies(pc, cond))
				continue
			}
			cur, ok := st.Ghost[gs.Name]
			if !ok {
				fx.fail("ghost statement assigns undeclared ghost variable %s", gs.Name)
			}
			env.st = st
			rhs := fx.evalSpec(env, gs.Rhs)
			if gs.Index == nil {
				rhs = fx.typed(rhs, cur.T)
				if len(rhs.V.L) != len(cur.L) || (len(cur.L) == 1 && rhs.V.L[0].Sort != cur.L[0].Sort) {
					fx.fail("ghost assignment %s: type mismatch", gs.Src)
				}
				nv := rhs.V
				nv.T = cur.T
				st.Ghost[gs.Name] = nv
				continue
			}
			m, ok := cur.T.(*types.Map)
			if !ok {
				fx.fail("ghost assignment %s: %s is not a ghost map", gs.Src, gs.Name)
			}
			key := fx.typed(fx.evalSpec(env, gs.Index), m.Key())
			rhs = fx.typed(rhs, m.Elem())
			if key.V.L[0].Sort != cur.L[0].Sort.Idx || rhs.V.L[0].Sort != cur.L[0].Sort.Elem {
				fx.fail("ghost assignment %s: key/value type mismatch", gs.Src)
			}
			st.Ghost[gs.Name] = Value{T: cur.T, L: []*Term{Store(cur.L[0], key.V.L[0], rhs.V.L[0])}}
		}
	}
}

// ghostAssignedInLoop lists ghost variables assigned at sites inside loop li.
func (fx *FnCtx) ghostAssignedInLoop(li *loopInfo) []string {
	if fx.fc == nil || !fx.topLevel {
		return nil
	}
	set := map[string]bool{}
	for _, ga := range fx.fc.GhostAt {
		inside := false
		switch {
		case strings.HasPrefix(ga.Site, "append#"):
			var n int
			fmt.Sscanf(ga.Site, "append#%d", &n)
			for ins, k := range fx.appendSites {
				if k == n && li.blocks[ins.Block()] {
					inside = true
				}
			}
		case strings.HasPrefix(ga.Site, "store#"):
			var n int
			fmt.Sscanf(ga.Site, "store#%d", &n)
			for ins, k := range fx.storeSites {
				if k == n && li.blocks[ins.Block()] {
					inside = true
				}
			}
		case strings.HasPrefix(ga.Site, "stmt "):
			for ins, site := range fx.stmtSites {
				if site == ga.Site && li.blocks[ins.Block()] {
					inside = true
				}
			}
		case strings.HasPrefix(ga.Site, "loop "):
			var n int
			fmt.Sscanf(ga.Site, "loop %d back", &n)
			if n < len(fx.loops.loops) {
				l := fx.loops.loops[n]
				if li.blocks[l.header] {
					inside = true
				}
			}
		}
		if inside {
			for _, gs := range ga.Stmts {
				set[gs.Name] = true
			}
		}
	}
	var out []string
	for n := range set {
		out = append(out, n)
	}
	sort.Strings(out)
	return out
}

// siteLookup resolves the name of a local variable as seen just before instruction at: the nearest
// preceding debug reference in its block, then in the dominating blocks (innermost scope wins).
func (fx *FnCtx) siteLookup(st *State, at ssa.Instruction) func(string) (SV, bool) {
	return func(name string) (SV, bool) {
		find := func(instrs []ssa.Instruction) (SV, bool) {
			for i := len(instrs) - 1; i >= 0; i-- {
				switch t := instrs[i].(type) {
				case *ssa.DebugRef:
					obj := t.Object()
					if obj == nil || obj.Name() != name {
						continue
					}
					if _, isVar := obj.(*types.Var); !isVar {
						continue
					}
					if t.IsAddr {
						if v, ok := fx.vals[t.X]; ok {
							return SV{V: fx.Load(st, fx.asPtr(v))}, true
						}
						continue
					}
					if v, ok := fx.vals[t.X]; ok {
						return SV{V: v}, true
					}
					if _, isConst := t.X.(*ssa.Const); isConst {
						return SV{V: fx.val(t.X)}, true
					}
				case *ssa.Phi:
					if t.Comment == name {
						if v, ok := fx.vals[t]; ok {
							return SV{V: v}, true
						}
					}
				}
			}
			return SV{}, false
		}
		b := at.Block()
		// rangeindexN / rangesliceN of an enclosing range loop with ordinal N
		for _, pre := range []string{"rangeindex", "rangeslice"} {
			if !strings.HasPrefix(name, pre) || len(name) == len(pre) || fx.loops == nil {
				continue
			}
			n, err := strconv.Atoi(name[len(pre):])
			if err != nil || n < 0 || n >= len(fx.loops.loops) || !fx.loops.loops[n].blocks[b] {
				continue
			}
			idx, ln := rangeLoopParts(fx.loops.loops[n])
			if idx == nil {
				continue
			}
			if pre == "rangeindex" {
				if v, ok := fx.vals[idx]; ok {
					return SV{V: v}, true
				}
			} else if c, ok := ln.(*ssa.Call); ok && len(c.Call.Args) == 1 {
				if v, ok := fx.vals[c.Call.Args[0]]; ok {
					return SV{V: v}, true
				}
			}
		}
		var before []ssa.Instruction
		for _, ins := range b.Instrs {
			if ins == at {
				break
			}
			before = append(before, ins)
		}
		if v, ok := find(before); ok {
			return v, true
		}
		for d := b.Idom(); d != nil; d = d.Idom() {
			if v, ok := find(d.Instrs); ok {
				return v, true
			}
		}
		return fx.lookupEntryVar(name, st)
	}
}

var sourceCache = map[string][]string{}

// sourceLine returns line n (1-based) of a source file.
func sourceLine(file string, n int) string {
	lines, ok := sourceCache[file]
	if !ok {
		data, err := os.ReadFile(file)
		if err == nil {
			lines = strings.Split(string(data), "\n")
		}
		sourceCache[file] = lines
	}
	if n < 1 || n > len(lines) {
		return ""
	}
	return lines[n-1]
}
