package main

// Memory operations on State: heaps, loads, stores, allocation.

import (
	"fmt"
	"go/types"
	"math/big"
	"strings"
)

func (r *RootCtx) noteOnce(s string) {
	for _, n := range r.notes {
		if n == s {
			return
		}
	}
	r.notes = append(r.notes, s)
}

func (tc *Tcx) zeroLeaf(l Leaf) *Term {
	return zeroOfSort(l.Sort)
}

func zeroOfSort(s *Sort) *Term {
	switch s.Kind {
	case SBool:
		return False
	case SInt:
		return IntNum(0)
	case SBV:
		return BVNum(0, s.Width)
	case SArray:
		return ConstArray(s, zeroOfSort(s.Elem))
	}
	panic("zero of sort")
}

func (tc *Tcx) Zero(t types.Type) Value {
	lay := tc.Layout(t)
	v := Value{T: t, L: make([]*Term, len(lay.Leaves))}
	for i, l := range lay.Leaves {
		v.L[i] = tc.zeroLeaf(l)
	}
	return v
}

// FreshValue creates a value of fresh symbols; range facts for narrow ints in
// int mode are returned as assumptions.
func (tc *Tcx) FreshValue(t types.Type, base string) (Value, []*Term) {
	lay := tc.Layout(t)
	v := Value{T: t, L: make([]*Term, len(lay.Leaves))}
	var facts []*Term
	for i, l := range lay.Leaves {
		v.L[i] = Fresh(base+l.Path, l.Sort)
		facts = append(facts, tc.leafFacts(l, v.L[i])...)
	}
	return v, facts
}

// leafFacts: type-range facts of a leaf term (int mode) and shape facts.
func (tc *Tcx) leafFacts(l Leaf, t *Term) []*Term {
	if t.Sort.Kind == SArray {
		return nil
	}
	switch l.Kind {
	case "int":
		if tc.Mode == ModeInt {
			return []*Term{tc.inRange(t, l.T)}
		}
	case "len", "cap", "off":
		return []*Term{tc.Ge0(t)}
	case "id", "ref", "tag":
		return []*Term{tc.Ge0(t)}
	}
	return nil
}

func (tc *Tcx) Ge0(t *Term) *Term {
	if tc.Mode == ModeBV {
		return BVCmp("bvsge", t, BVNum(0, t.Sort.Width))
	}
	return ILe(IntNum(0), t)
}

func typeRange(t types.Type) (lo, hi *big.Int) {
	w, signed, ok := intInfo(t)
	if !ok {
		panic("typeRange of non-int")
	}
	if signed {
		lo = new(big.Int).Neg(new(big.Int).Lsh(big.NewInt(1), uint(w-1)))
		hi = new(big.Int).Sub(new(big.Int).Lsh(big.NewInt(1), uint(w-1)), big.NewInt(1))
	} else {
		lo = big.NewInt(0)
		hi = new(big.Int).Sub(new(big.Int).Lsh(big.NewInt(1), uint(w)), big.NewInt(1))
	}
	return
}

func (tc *Tcx) inRange(t *Term, ty types.Type) *Term {
	lo, hi := typeRange(ty)
	return And(ILe(IntBig(lo), t), ILe(t, IntBig(hi)))
}

// IdxNum builds a numeral of the index sort.
func (tc *Tcx) IdxNum(v int64) *Term {
	if tc.Mode == ModeBV {
		return BVNum(v, 64)
	}
	return IntNum(v)
}

func (tc *Tcx) IdxAdd(a, b *Term) *Term {
	if tc.Mode == ModeBV {
		return bvBin("bvadd", a, b)
	}
	return IAdd(a, b)
}
func (tc *Tcx) IdxSub(a, b *Term) *Term {
	if tc.Mode == ModeBV {
		return bvBin("bvsub", a, b)
	}
	return ISub(a, b)
}
func (tc *Tcx) IdxLe(a, b *Term) *Term {
	if tc.Mode == ModeBV {
		return BVCmp("bvsle", a, b)
	}
	return ILe(a, b)
}
func (tc *Tcx) IdxLt(a, b *Term) *Term {
	if tc.Mode == ModeBV {
		return BVCmp("bvslt", a, b)
	}
	return ILt(a, b)
}

func objHeapName(root types.Type, leaf Leaf) string { return "O:" + typeKey(root) + leaf.Path }
func arrHeapName(elem types.Type, leaf Leaf) string { return "A:" + typeKey(elem) + leaf.Path }

func (tc *Tcx) heapSort(name string, leaf Leaf) *Sort {
	ix := tc.IdxSort()
	if name[0] == 'O' {
		return ArraySort(ix, leaf.Sort)
	}
	return ArraySort(ix, ArraySort(ix, leaf.Sort))
}

type heapInfo struct {
	Leaf Leaf
	Sort *Sort
}

// Heap returns the current term of a heap array (the function-entry symbol if untouched).
func (fx *FnCtx) Heap(st *State, name string, leaf Leaf) *Term {
	if fx.pureEval {
		fx.fail("an opaque spec function reads memory (%s); only pure arithmetic functions may be opaque", name)
	}
	if h, ok := st.Heaps[name]; ok {
		return h
	}
	s := fx.tc.heapSort(name, leaf)
	fx.V.heapLeaves[name] = heapInfo{leaf, s}
	return fx.initialHeap(name, s, leaf)
}

func (fx *FnCtx) initialHeap(name string, s *Sort, leaf Leaf) *Term {
	h := Sym("H0_"+fx.tc.Mode.String()+"_"+name, s)
	fx.noteHeapSymbol(h, name, leaf)
	return h
}

// noteHeapSymbol records range axioms for narrow integer leaves held in a heap symbol (int mode).
func (fx *FnCtx) noteHeapSymbol(h *Term, name string, leaf Leaf) {
	if fx.root.heapAxiomDone[h] {
		return
	}
	fx.root.heapAxiomDone[h] = true
	if fx.root.boundedK > 0 {
		// bounded instance search keeps VCs quantifier-free; loads carry ground range facts
		return
	}
	tc := fx.tc
	if leaf.Kind == "cap" && strings.HasSuffix(name, ".cap") && leaf.Sort.Kind != SArray {
		// a slice held in memory has len <= cap (for every location of the heap, so that the fact is
		// available under quantifiers too)
		lenName := strings.TrimSuffix(name, ".cap") + ".len"
		if h == Sym("H0_"+tc.Mode.String()+"_"+name, h.Sort) {
			// the length heap has the shape of the capacity heap (both hold indices of this mode); the
			// table entry may have been left by a function verified in the other integer mode
			hl := Sym("H0_"+tc.Mode.String()+"_"+lenName, h.Sort)
			var bound []*Term
			cl, cc := hl, h
			for cc.Sort.Kind == SArray {
				b := BoundVar("q", cc.Sort.Idx)
				bound = append(bound, b)
				cl, cc = Select(cl, b), Select(cc, b)
			}
			fx.root.axioms = append(fx.root.axioms, Forall(bound, tc.IdxLe(cl, cc), []*Term{cc}))
		}
	}
	needRange := false
	if leaf.Kind == "int" && tc.Mode == ModeInt {
		w, signed, _ := intInfo(leaf.T)
		if w < 64 || !signed {
			needRange = true
		}
	}
	shape := leaf.Kind == "len" || leaf.Kind == "cap" || leaf.Kind == "off" || leaf.Kind == "id" || leaf.Kind == "ref" || leaf.Kind == "tag"
	if !needRange && !shape {
		return
	}
	// element sort may itself be array (fixed arrays inside objects): quantify over all levels
	var bound []*Term
	cur := h
	for cur.Sort.Kind == SArray {
		b := BoundVar("q", cur.Sort.Idx)
		bound = append(bound, b)
		cur = Select(cur, b)
	}
	var body *Term
	if needRange {
		body = tc.inRange(cur, leaf.T)
	} else {
		body = tc.Ge0(cur)
		// references and array ids held in memory at function entry denote objects that existed then
		if strings.HasPrefix(h.Name, "H0_") {
			switch leaf.Kind {
			case "off":
				// entry slices start at element 0 of their abstract arrays (see Load)
				body = Eq(cur, tc.IdxNum(0))
			case "id":
				body = And(body, tc.IdxLt(cur, fx.root.entryNAlloc))
			case "ref":
				body = And(body, tc.validRef(cur, fx.root.entryNAlloc))
			}
		}
	}
	fx.root.axioms = append(fx.root.axioms, Forall(bound, body, []*Term{cur}))
}

func applySelects(t *Term, idx []*Term) *Term {
	for _, i := range idx {
		if t.Sort.Kind != SArray {
			panic("array index applied to non-array leaf")
		}
		t = Select(t, i)
	}
	return t
}

func applyStores(base *Term, idx []*Term, v *Term) *Term {
	if len(idx) == 0 {
		return v
	}
	inner := applyStores(Select(base, idx[0]), idx[1:], v)
	return Store(base, idx[0], inner)
}

func (fx *FnCtx) ptrLeaves(p *PtrInfo) []Leaf {
	lay := fx.tc.Layout(p.Root)
	n := len(fx.tc.Layout(p.Typ).Leaves)
	if p.Off+n > len(lay.Leaves) {
		panic(fmt.Sprintf("pointer leaf range out of layout: root %v off %d typ %v", p.Root, p.Off, p.Typ))
	}
	return lay.Leaves[p.Off : p.Off+n]
}

// Load reads the value a pointer refers to.
func (fx *FnCtx) Load(st *State, p *PtrInfo) Value {
	if p.Kind == PGlobal && p.Off == 0 {
		// a package-level function variable resolved to the function it is initialised with
		if v := fx.globalValue(st, p.Global); v.Fn != nil {
			return v
		}
	}
	leaves := fx.ptrLeaves(p)
	out := Value{T: p.Typ, L: make([]*Term, len(leaves))}
	for i, lf := range leaves {
		var t *Term
		switch p.Kind {
		case PLocal:
			t = st.Locals[p.Region].L[p.Off+i]
		case PGlobal:
			t = fx.globalValue(st, p.Global).L[p.Off+i]
		case PObj:
			h := fx.Heap(st, objHeapName(p.Root, lf), lf)
			if lf.Kind == "off" && h.Op == "sym" && strings.HasPrefix(h.Name, "H0_") {
				// a slice held in memory at function entry is viewed as starting at element 0 of its
				// own (abstract) backing array, like slice parameters: entry slices are assumed not to
				// overlap partially. Keeps index terms free of a symbolic offset.
				t = fx.tc.IdxNum(0)
				fx.root.noteOnce("assumed: slices stored in memory at function entry start at element 0 of distinct abstract arrays (no partial overlap)")
			} else {
				t = Select(h, p.Ref)
				if lf.Kind == "off" && lf.Sort.Kind != SArray && !p.Ref.hasBnd {
					// the same assumption when the heap has been written since entry: the entry value
					// at this reference is 0 (ground instance)
					name := objHeapName(p.Root, lf)
					h0 := fx.initialHeap(name, fx.tc.heapSort(name, lf), lf)
					fx.assume(Eq(Select(h0, p.Ref), fx.tc.IdxNum(0)))
				}
			}
		case PElem:
			name := arrHeapName(p.Root, lf)
			h := fx.Heap(st, name, lf)
			if lf.Kind == "off" && lf.Sort.Kind != SArray && p.Idx != nil {
				if h.Op == "sym" && strings.HasPrefix(h.Name, "H0_") {
					t = fx.tc.IdxNum(0)
					fx.root.noteOnce("assumed: slices stored in memory at function entry start at element 0 of distinct abstract arrays (no partial overlap)")
					break
				}
				if !p.Arr.hasBnd && !p.Idx.hasBnd {
					h0 := fx.initialHeap(name, fx.tc.heapSort(name, lf), lf)
					fx.assume(Eq(Select(Select(h0, p.Arr), p.Idx), fx.tc.IdxNum(0)))
				}
			}
			t = Select(h, p.Arr)
			if p.Idx != nil {
				t = Select(t, p.Idx)
			}
		}
		out.L[i] = applySelects(t, p.ArrIdx)
	}
	return out
}

// StoreTo writes v through p.
func (fx *FnCtx) StoreTo(st *State, p *PtrInfo, v Value) {
	leaves := fx.ptrLeaves(p)
	if len(v.L) != len(leaves) {
		panic(fmt.Sprintf("store layout mismatch: %v into *%v (%d vs %d leaves)", v.T, p.Typ, len(v.L), len(leaves)))
	}
	for i, lf := range leaves {
		switch p.Kind {
		case PLocal:
			old := st.Locals[p.Region]
			nv := Value{T: old.T, L: append([]*Term(nil), old.L...)}
			nv.L[p.Off+i] = applyStores(old.L[p.Off+i], p.ArrIdx, v.L[i])
			st.Locals[p.Region] = nv
		case PGlobal:
			old := fx.globalValue(st, p.Global)
			nv := Value{T: old.T, L: append([]*Term(nil), old.L...)}
			nv.L[p.Off+i] = applyStores(old.L[p.Off+i], p.ArrIdx, v.L[i])
			st.Globals[p.Global] = nv
		case PObj:
			name := objHeapName(p.Root, lf)
			h := fx.Heap(st, name, lf)
			st.Heaps[name] = Store(h, p.Ref, applyStores(Select(h, p.Ref), p.ArrIdx, v.L[i]))
		case PElem:
			name := arrHeapName(p.Root, lf)
			h := fx.Heap(st, name, lf)
			inner := Select(h, p.Arr)
			if p.Idx != nil {
				inner = Store(inner, p.Idx, applyStores(Select(inner, p.Idx), p.ArrIdx, v.L[i]))
			} else {
				inner = applyStores(inner, p.ArrIdx, v.L[i])
			}
			st.Heaps[name] = Store(h, p.Arr, inner)
		}
	}
}

// newRef allocates a fresh reference / array id.
func (fx *FnCtx) newRef(st *State) *Term {
	r := st.NAlloc
	st.NAlloc = fx.tc.IdxAdd(st.NAlloc, fx.tc.IdxNum(1))
	return r
}

// slice value helpers
func (fx *FnCtx) mkSlice(t types.Type, id, off, ln, cp *Term) Value {
	return Value{T: t, L: []*Term{id, off, ln, cp}}
}

func elemTypeOf(t types.Type) types.Type {
	switch u := t.Underlying().(type) {
	case *types.Slice:
		return u.Elem()
	case *types.Array:
		return u.Elem()
	case *types.Pointer:
		return elemTypeOf(u.Elem())
	case *types.Basic:
		if u.Info()&types.IsString != 0 {
			return types.Typ[types.Uint8]
		}
	}
	panic("elemTypeOf " + t.String())
}

// readElem reads element (absolute index idx) of backing array id, type elem.
func (fx *FnCtx) readElem(st *State, elem types.Type, id, idx *Term) Value {
	return fx.Load(st, &PtrInfo{Kind: PElem, Arr: id, Idx: idx, Root: elem, Typ: elem})
}

func (fx *FnCtx) writeElem(st *State, elem types.Type, id, idx *Term, v Value) {
	fx.StoreTo(st, &PtrInfo{Kind: PElem, Arr: id, Idx: idx, Root: elem, Typ: elem}, v)
}

// copyElems performs A[dst][dstStart+j] = Aold[src][srcStart+j] for 0<=j<n (memmove semantics,
// source read from the state before the copy). Small constant n is done by explicit stores,
// otherwise a fresh inner array is introduced and constrained by quantified assumptions.
func (fx *FnCtx) copyElems(st *State, pc *Term, elem types.Type, dst, dstStart, src, srcStart, n *Term) {
	tc := fx.tc
	lay := tc.Layout(elem)
	if n.IsNum() && n.Val.IsInt64() && n.Val.Int64() <= 16 {
		k := int(n.Val.Int64())
		pre := st.Clone()
		for j := 0; j < k; j++ {
			jj := tc.IdxNum(int64(j))
			v := fx.readElem(pre, elem, src, tc.IdxAdd(srcStart, jj))
			fx.writeElem(st, elem, dst, tc.IdxAdd(dstStart, jj), v)
		}
		return
	}
	if fx.root.boundedK > 0 {
		// bounded instance search: copies of at most 8 elements, done by explicit guarded stores
		// so that the VC stays quantifier-free
		const nq = 4
		fx.assume(Implies(pc, tc.IdxLe(n, tc.IdxNum(nq))))
		pre := st.Clone()
		for j := int64(0); j < nq; j++ {
			jj := tc.IdxNum(j)
			in := tc.IdxLt(jj, n)
			sv := fx.readElem(pre, elem, src, tc.IdxAdd(srcStart, jj))
			dv := fx.readElem(st, elem, dst, tc.IdxAdd(dstStart, jj))
			m, err := iteValue(in, sv, dv)
			if err != nil {
				fx.fail("bounded copy: %v", err)
			}
			fx.writeElem(st, elem, dst, tc.IdxAdd(dstStart, jj), m)
		}
		return
	}
	for _, lf := range lay.Leaves {
		name := arrHeapName(elem, lf)
		h := fx.Heap(st, name, lf)
		oldDst := Select(h, dst)
		oldSrc := Select(h, src)
		nw := Fresh("cp_"+name, oldDst.Sort)
		// one axiom over the absolute index i, triggered by any read nw[i]:
		//   nw[i] = (dstStart <= i < dstStart+n) ? oldSrc[i - dstStart + srcStart] : oldDst[i]
		i := BoundVar("i", tc.IdxSort())
		in := And(tc.IdxLe(dstStart, i), tc.IdxLt(i, tc.IdxAdd(dstStart, n)))
		srcIdx := tc.IdxAdd(tc.IdxSub(i, dstStart), srcStart)
		ni := Select(nw, i)
		a1 := Forall([]*Term{i}, Eq(ni, Ite(in, Select(oldSrc, srcIdx), Select(oldDst, i))), []*Term{ni})
		fx.assume(Implies(pc, a1))
		st.Heaps[name] = Store(h, dst, nw)
	}
}
