package main

// Counterexample extraction and replay on the real code via `go test -overlay`.

import (
	"bytes"
	"context"
	"encoding/json"
	"fmt"
	"go/types"
	"math/big"
	"os"
	"os/exec"
	"path/filepath"
	"sort"
	"strings"
	"time"

	"golang.org/x/tools/go/ssa"
)

const replayElems = 24

type inNode struct {
	kind    string // int bool slice string struct ptr opaque
	T       types.Type
	term    *Term
	id, off *Term
	ln, cp  *Term
	elems   []*inNode
	fields  []*inNode
	fnames  []string
	pointee *inNode
	val     *big.Int
	bval    bool
	vid, vln, vcp *big.Int
	stream        []byte // kind "stream": the bytes the reader delivers
	stubMethods   []string // kind "stub": interface value built from a test-local type whose methods
	stubTypes     []types.Type
	stubNodes     []*inNode // return the model's observer values
}

type replayCtx struct {
	fx    *FnCtx
	terms []*Term
	index map[*Term]int
	vals  []string
}

func (rc *replayCtx) want(t *Term) {
	if t == nil {
		return
	}
	if _, ok := rc.index[t]; ok {
		return
	}
	rc.index[t] = len(rc.terms)
	rc.terms = append(rc.terms, t)
}

func (rc *replayCtx) build(t types.Type, leaves []*Term, depth int) *inNode {
	fx := rc.fx
	tc := fx.tc
	n := &inNode{T: t}
	switch u := t.Underlying().(type) {
	case *types.Basic:
		switch {
		case u.Info()&types.IsInteger != 0:
			n.kind, n.term = "int", leaves[0]
			rc.want(n.term)
		case u.Info()&types.IsBoolean != 0:
			n.kind, n.term = "bool", leaves[0]
			rc.want(n.term)
		case u.Info()&types.IsString != 0:
			n.kind = "string"
			n.id, n.off, n.ln = leaves[0], leaves[1], leaves[2]
			rc.want(n.id)
			rc.want(n.ln)
			rc.elemsOf(n, types.Typ[types.Uint8], depth)
		default:
			n.kind = "opaque"
		}
	case *types.Slice:
		n.kind = "slice"
		n.id, n.off, n.ln, n.cp = leaves[0], leaves[1], leaves[2], leaves[3]
		rc.want(n.id)
		rc.want(n.ln)
		rc.want(n.cp)
		rc.elemsOf(n, u.Elem(), depth)
	case *types.Struct:
		n.kind = "struct"
		for i := 0; i < u.NumFields(); i++ {
			if embeddedFields[u.Field(i)] {
				n.fields = append(n.fields, &inNode{kind: "opaque", T: u.Field(i).Type()})
				n.fnames = append(n.fnames, u.Field(i).Name())
				continue
			}
			off, k := tc.fieldRange(u, i)
			n.fields = append(n.fields, rc.build(u.Field(i).Type(), leaves[off:off+k], depth))
			n.fnames = append(n.fnames, u.Field(i).Name())
		}
	case *types.Pointer:
		n.kind = "ptr"
		n.id = leaves[0]
		rc.want(n.id)
		if _, isArr := u.Elem().Underlying().(*types.Array); isArr || depth >= 3 {
			return n
		}
		if _, isStruct := u.Elem().Underlying().(*types.Struct); !isStruct && !isIntType(u.Elem()) {
			return n
		}
		lay := tc.Layout(u.Elem())
		var sub []*Term
		for _, lf := range lay.Leaves {
			name := objHeapName(u.Elem(), lf)
			h := fx.initialHeap(name, tc.heapSort(name, lf), lf)
			sub = append(sub, Select(h, n.id))
		}
		n.pointee = rc.build(u.Elem(), sub, depth+1)
	case *types.Interface:
		n.kind = "opaque"
		if depth <= 1 && len(leaves) > 0 {
			// an interface held directly by an input (a reader, a writer): the replay cannot build the
			// value the model asks for unless it is nil
			n.kind = "iface"
			n.id = leaves[0]
			rc.want(n.id)
			rc.stubFor(n, t, leaves, depth)
		}
	default:
		n.kind = "opaque"
	}
	return n
}

func (rc *replayCtx) elemsOf(n *inNode, el types.Type, depth int) {
	if depth >= 3 {
		return
	}
	fx := rc.fx
	tc := fx.tc
	lay := tc.Layout(el)
	for k := 0; k < replayElems; k++ {
		var sub []*Term
		for _, lf := range lay.Leaves {
			name := arrHeapName(el, lf)
			h := fx.initialHeap(name, tc.heapSort(name, lf), lf)
			sub = append(sub, Select(Select(h, n.id), tc.IdxAdd(n.off, tc.IdxNum(int64(k)))))
		}
		n.elems = append(n.elems, rc.build(el, sub, depth+1))
	}
}

func parseSMTValue(s string) (*big.Int, bool, bool) {
	s = strings.TrimSpace(s)
	switch {
	case s == "true":
		return nil, true, true
	case s == "false":
		return nil, false, true
	case strings.HasPrefix(s, "#x"):
		v, ok := new(big.Int).SetString(s[2:], 16)
		return v, false, ok
	case strings.HasPrefix(s, "#b"):
		v, ok := new(big.Int).SetString(s[2:], 2)
		return v, false, ok
	case strings.HasPrefix(s, "(-"):
		inner := strings.TrimSpace(strings.TrimSuffix(strings.TrimPrefix(s, "(-"), ")"))
		v, ok := new(big.Int).SetString(inner, 10)
		if ok {
			v.Neg(v)
		}
		return v, false, ok
	}
	v, ok := new(big.Int).SetString(s, 10)
	return v, false, ok
}

// parseGetValue parses "((t v) (t v) ...)" and returns the values in order.
func parseGetValue(out string) []string {
	i := strings.Index(out, "((")
	if i < 0 {
		return nil
	}
	s := out[i+1:]
	var vals []string
	depth := 0
	start := -1
	for p := 0; p < len(s); p++ {
		switch s[p] {
		case '(':
			if depth == 0 {
				start = p
			}
			depth++
		case ')':
			depth--
			if depth == 0 && start >= 0 {
				pair := s[start+1 : p]
				vals = append(vals, lastSexp(pair))
				start = -1
			}
			if depth < 0 {
				return vals
			}
		}
	}
	return vals
}

// lastSexp returns the last top-level s-expression of s.
func lastSexp(s string) string {
	s = strings.TrimSpace(s)
	if s == "" {
		return ""
	}
	if s[len(s)-1] == ')' {
		depth := 0
		for p := len(s) - 1; p >= 0; p-- {
			if s[p] == ')' {
				depth++
			} else if s[p] == '(' {
				depth--
				if depth == 0 {
					return s[p:]
				}
			}
		}
		return s
	}
	k := strings.LastIndexAny(s, " \t\n")
	return s[k+1:]
}

func (rc *replayCtx) fill(n *inNode) {
	get := func(t *Term) *big.Int {
		if t == nil {
			return nil
		}
		if t.IsNum() {
			return t.Val
		}
		k, ok := rc.index[t]
		if !ok || k >= len(rc.vals) {
			return big.NewInt(0)
		}
		v, _, ok := parseSMTValue(rc.vals[k])
		if !ok || v == nil {
			return big.NewInt(0)
		}
		return v
	}
	switch n.kind {
	case "int":
		n.val = get(n.term)
		if w, signed, ok := intInfo(n.T); ok && signed && rc.fx.tc.Mode == ModeBV && n.val.Bit(w-1) == 1 {
			n.val = new(big.Int).Sub(n.val, new(big.Int).Lsh(big.NewInt(1), uint(w)))
		}
	case "bool":
		if n.term == True {
			n.bval = true
		} else if k, ok := rc.index[n.term]; ok && k < len(rc.vals) {
			_, b, _ := parseSMTValue(rc.vals[k])
			n.bval = b
		}
	case "slice", "string":
		n.vid, n.vln, n.vcp = get(n.id), signed64(get(n.ln)), signed64(get(n.cp))
		for _, e := range n.elems {
			rc.fill(e)
		}
	case "struct":
		for _, f := range n.fields {
			rc.fill(f)
		}
	case "stub":
		n.vid = get(n.id)
		for _, sn := range n.stubNodes {
			rc.fill(sn)
		}
	case "iface":
		n.vid = get(n.id)
	case "ptr":
		n.vid = get(n.id)
		if n.pointee != nil {
			rc.fill(n.pointee)
		}
	}
}

func signed64(v *big.Int) *big.Int {
	if v == nil {
		return nil
	}
	if v.Bit(63) == 1 && v.Sign() > 0 && v.BitLen() == 64 {
		return new(big.Int).Sub(v, new(big.Int).Lsh(big.NewInt(1), 64))
	}
	return v
}

func (g *goGen) literal(n *inNode) (string, bool) {
	ts := g.typeStr(n.T)
	switch n.kind {
	case "stub":
		if n.vid != nil && n.vid.Sign() == 0 {
			return fmt.Sprintf("*new(%s)", ts), true
		}
		id := len(g.stubDecls)
		var fields, inits []string
		var meths strings.Builder
		for i, m := range n.stubMethods {
			l, ok := g.literal(n.stubNodes[i])
			if !ok {
				return "", false
			}
			rt := g.typeStr(n.stubTypes[i])
			fields = append(fields, fmt.Sprintf("m%d %s", i, rt))
			inits = append(inits, fmt.Sprintf("m%d: %s", i, l))
			fmt.Fprintf(&meths, "func (s hvcStub%d) %s() %s { return s.m%d }\n", id, m, rt, i)
		}
		g.stubDecls = append(g.stubDecls, fmt.Sprintf("type hvcStub%d struct{ %s }\n%s", id, strings.Join(fields, "; "), meths.String()))
		return fmt.Sprintf("%s(hvcStub%d{%s})", ts, id, strings.Join(inits, ", ")), true
	case "stream":
		g.imports["bytes"] = "bytes"
		var bs []string
		for _, b := range n.stream {
			bs = append(bs, fmt.Sprint(b))
		}
		return fmt.Sprintf("%s(bytes.NewReader([]byte{%s}))", ts, strings.Join(bs, ",")), true
	case "iface":
		if n.vid == nil || n.vid.Sign() == 0 {
			return fmt.Sprintf("*new(%s)", ts), true
		}
		return "", false
	case "int":
		return fmt.Sprintf("%s(%s)", ts, n.val.String()), true
	case "bool":
		return fmt.Sprintf("%s(%v)", ts, n.bval), true
	case "string":
		ln := int(n.vln.Int64())
		if ln > 1<<16 || ln < 0 {
			if os.Getenv("HVC_DEBUG") != "" {
				fmt.Printf("hvc: replay literal: string of length %v\n", n.vln)
			}
			return "", false
		}
		var bs []string
		for i := 0; i < ln; i++ {
			if i < len(n.elems) {
				bs = append(bs, n.elems[i].val.String())
			} else {
				bs = append(bs, "0")
			}
		}
		return fmt.Sprintf("%s([]byte{%s})", ts, strings.Join(bs, ",")), true
	case "slice":
		if n.vid.Sign() == 0 {
			return fmt.Sprintf("%s(nil)", ts), true
		}
		ln := n.vln.Int64()
		cp := n.vcp.Int64()
		if ln > 1<<20 || ln < 0 {
			if os.Getenv("HVC_DEBUG") != "" {
				fmt.Printf("hvc: replay literal: slice %v of length %v\n", n.T, n.vln)
			}
			return "", false
		}
		if cp > ln+64 {
			cp = ln + 64
		}
		var sb strings.Builder
		fmt.Fprintf(&sb, "func() %s { s := make(%s, %d, %d); ", ts, ts, ln, cp)
		for i := 0; i < int(ln) && i < len(n.elems); i++ {
			l, ok := g.literal(n.elems[i])
			if !ok {
				return "", false
			}
			fmt.Fprintf(&sb, "s[%d] = %s; ", i, l)
		}
		sb.WriteString("return s }()")
		return sb.String(), true
	case "struct":
		var fs []string
		named, _ := n.T.(*types.Named)
		foreign := named != nil && named.Obj().Pkg() != nil && named.Obj().Pkg() != g.pkg
		for i, f := range n.fields {
			if foreign && !types.NewVar(0, nil, n.fnames[i], nil).Exported() {
				continue
			}
			if f.kind == "opaque" || n.fnames[i] == "_" {
				continue
			}
			l, ok := g.literal(f)
			if !ok {
				return "", false
			}
			fs = append(fs, n.fnames[i]+": "+l)
		}
		return ts + "{" + strings.Join(fs, ", ") + "}", true
	case "ptr":
		if n.vid.Sign() == 0 || n.pointee == nil {
			return fmt.Sprintf("(%s)(nil)", ts), true
		}
		if n.pointee.kind == "struct" {
			// an object of another package with hidden state cannot be constructed faithfully
			if named, _ := n.pointee.T.(*types.Named); named != nil && named.Obj().Pkg() != nil && named.Obj().Pkg() != g.pkg {
				for _, fn := range n.pointee.fnames {
					if fn != "_" && !types.NewVar(0, nil, fn, nil).Exported() {
						return "", false
					}
				}
			}
		}
		l, ok := g.literal(n.pointee)
		if !ok {
			return "", false
		}
		if n.pointee.kind == "struct" {
			return "&" + l, true
		}
		return fmt.Sprintf("func() %s { v := %s; return &v }()", ts, l), true
	}
	if os.Getenv("HVC_DEBUG") != "" {
		fmt.Printf("hvc: replay literal: unsupported node kind %q of type %v\n", n.kind, n.T)
	}
	// values the replay cannot construct (interfaces, maps, functions, arrays) are left at their zero value
	return fmt.Sprintf("*new(%s)", ts), true
}

type ReplayResult struct {
	File       string
	Reproduced bool
	Detail     string
	Ran        bool
}

// replayObligation extracts a model for a failed obligation and replays it.
func (v *Verifier) replayObligation(o *Obligation, fx *FnCtx, fn *ssa.Function, fc *FuncContract, outDir string, solverOut string) ReplayResult {
	res := ReplayResult{}
	_ = os.MkdirAll(outDir, 0o755)
	res.File = filepath.Join(outDir, sanitize(o.Name)+"_test.go")
	header := fmt.Sprintf("// hvc replay file\n// obligation: %s\n// kind: %s\n// %s\n// solver: %s (%s)\n", o.Name, o.Kind, o.Desc, o.Solver, o.Status)
	writeStub := func(reason string) ReplayResult {
		body := header + "// no executable replay: " + reason + "\n// solver output:\n"
		for _, ln := range strings.Split(firstN(solverOut, 4000), "\n") {
			body += "//   " + ln + "\n"
		}
		body += "\npackage hvcreplay\n"
		_ = os.WriteFile(res.File, []byte(body), 0o644)
		res.Detail = reason
		return res
	}
	if fn == nil || fx == nil {
		return writeStub("obligation is a lemma over spec functions (no code to run)")
	}
	if o.Status != "sat" {
		return writeStub("solver gave no model (" + o.Status + ")")
	}
	rc := &replayCtx{fx: fx, index: map[*Term]int{}}
	var nodes []*inNode
	var names []string
	for _, in := range o.Root.inputs {
		val := in.V
		if val.P != nil {
			if val.P.Kind == PObj {
				val = Value{T: val.T, L: []*Term{val.P.Ref}}
			} else {
				nodes = append(nodes, &inNode{kind: "opaque", T: val.T})
				names = append(names, in.Name)
				continue
			}
		}
		nodes = append(nodes, rc.build(val.T, val.L, 0))
		names = append(names, in.Name)
	}
	// a single reader among the inputs: the recorded stream reads give the bytes it has to deliver
	var streamNodes []*inNode
	var findStreams func(n *inNode, depth int)
	findStreams = func(n *inNode, depth int) {
		if n == nil || depth > 3 {
			return
		}
		if n.kind == "iface" && isReaderType(n.T) {
			streamNodes = append(streamNodes, n)
		}
		for _, f := range n.fields {
			findStreams(f, depth+1)
		}
		findStreams(n.pointee, depth+1)
	}
	for _, n := range nodes {
		findStreams(n, 0)
	}
	streamOK := len(o.Root.stream) > 0 && !o.Root.streamBad
	if len(streamNodes) == 1 && streamOK {
		rc.wantStream(o.Root)
	}
	// model query
	root := o.Root
	var asserts []*Term
	asserts = append(asserts, root.axioms...)
	asserts = append(asserts, root.assumes[:o.NAssume]...)
	asserts = append(asserts, o.Path, Not(o.Cond))
	mfile := filepath.Join(outDir, sanitize(o.Name)+".model.smt2")
	var out string
	// prefer small models: bound slice/string lengths, then relax
	for _, bound := range []int64{8, 256, -1} {
		extra := append([]*Term{}, asserts...)
		if bound >= 0 {
			var walk func(n *inNode)
			walk = func(n *inNode) {
				if n == nil {
					return
				}
				if n.kind == "int" && fx.tc.Mode == ModeInt && n.term != nil && !n.term.IsNum() {
					extra = append(extra, fx.tc.inRange(n.term, n.T))
				}
				if n.kind == "slice" || n.kind == "string" {
					// well-formedness of values the program never loaded (no facts were generated for them)
					extra = append(extra, fx.tc.IdxLe(fx.tc.IdxNum(0), n.ln), fx.tc.IdxLe(fx.tc.IdxNum(0), n.id))
					if n.cp != nil {
						extra = append(extra, fx.tc.IdxLe(n.ln, n.cp))
					}
					extra = append(extra, fx.tc.IdxLe(n.ln, fx.tc.IdxNum(bound)))
					if n.cp != nil {
						extra = append(extra, fx.tc.IdxLe(n.cp, fx.tc.IdxNum(bound+8)))
					}
				}
				for _, e := range n.elems {
					walk(e)
				}
				for _, f := range n.fields {
					walk(f)
				}
				walk(n.pointee)
			}
			for _, n := range nodes {
				walk(n)
			}
		}
		script := PrintScript(extra, nil, true, rc.terms)
		_ = os.WriteFile(mfile, []byte(script), 0o644)
		if r, _ := race(mfile, 8); r.Status == "sat" {
			out = r.Output
		}
		if out != "" {
			break
		}
	}
	if out == "" {
		return writeStub("model extraction failed")
	}
	rc.vals = parseGetValue(out)
	if len(rc.vals) < len(rc.terms) {
		return writeStub(fmt.Sprintf("model extraction returned %d of %d values", len(rc.vals), len(rc.terms)))
	}
	for _, n := range nodes {
		rc.fill(n)
	}
	if len(streamNodes) == 1 && streamOK {
		streamNodes[0].kind = "stream"
		streamNodes[0].stream = rc.streamBytes(o.Root)
	}
	src, err := v.replaySource(o, fx, fn, fc, nodes, names, header)
	if err != nil {
		return writeStub("cannot build executable replay: " + err.Error())
	}
	_ = os.WriteFile(res.File, []byte(src), 0o644)
	return v.runReplayFile(res.File, fn)
}

func firstN(s string, n int) string {
	if len(s) > n {
		return s[:n]
	}
	return s
}

func (v *Verifier) replaySource(o *Obligation, fx *FnCtx, fn *ssa.Function, fc *FuncContract, nodes []*inNode, names []string, header string) (string, error) {
	pkg := fx.pkgTypes()
	g := &goGen{fx: fx, pkg: pkg, specs: map[string]*SpecFunc{}, imports: map[string]string{}}
	var body strings.Builder
	sc := &goScope{vars: map[string]types.Type{}, rename: map[string]string{}}
	oldSc := &goScope{vars: map[string]types.Type{}, rename: map[string]string{}}
	sc.oldSc = oldSc
	var argNames []string
	freeVals := map[string]string{}
	for i, n := range nodes {
		name := names[i]
		if strings.HasPrefix(name, "free:") {
			// captured variable: value is what the pointer refers to
			if n.kind == "ptr" && n.pointee != nil {
				l, ok := g.literal(n.pointee)
				if !ok {
					return "", fmt.Errorf("captured variable %s not representable", name)
				}
				// the captured variable is visible to the clauses under its own name
				fmt.Fprintf(&body, "\t%s := %s\n\t_ = %s\n", name[5:], l, name[5:])
				sc.vars[name[5:]] = n.pointee.T
				oldSc.vars[name[5:]] = n.pointee.T
				freeVals[name[5:]] = name[5:]
				continue
			}
			l, ok := g.literal(n)
			if !ok {
				return "", fmt.Errorf("captured variable %s not representable", name)
			}
			freeVals[name[5:]] = l
			continue
		}
		l, ok := g.literal(n)
		if !ok {
			return "", fmt.Errorf("input %s (%v) not representable or too large", name, n.T)
		}
		vn := name
		if vn == "_" || vn == "" {
			vn = fmt.Sprintf("hvcArg%d", i)
		}
		fmt.Fprintf(&body, "\t%s := %s\n\t_ = %s\n", vn, l, vn)
		sc.vars[vn] = n.T
		oldSc.vars[vn] = n.T
		argNames = append(argNames, vn)
		// snapshot for old()
		switch n.kind {
		case "slice":
			fmt.Fprintf(&body, "\told_%s := append(%s(nil), %s...)\n\t_ = old_%s\n", vn, g.typeStr(n.T), vn, vn)
			oldSc.rename[vn] = "old_" + vn
		case "ptr":
			if n.pointee != nil && n.vid.Sign() != 0 {
				fmt.Fprintf(&body, "\told_%s_v := *%s\n\told_%s := &old_%s_v\n\t_ = old_%s\n", vn, vn, vn, vn, vn)
				oldSc.rename[vn] = "old_" + vn
			}
		}
	}
	// preconditions
	for _, c := range fc.Requires {
		code, _ := g.expr(c.Expr, sc)
		if g.err != nil {
			g.err = nil
			continue
		}
		fmt.Fprintf(&body, "\tif !(%s) {\n\t\tfmt.Println(\"HVC-REPLAY: precondition does not hold for the model input:\", %q)\n\t\treturn\n\t}\n", code, c.Src)
	}
	// call
	sig := fn.Signature
	var resNames []string
	var resDecl []string
	for i := 0; i < sig.Results().Len(); i++ {
		rn := fmt.Sprintf("result%d", i)
		resNames = append(resNames, rn)
		resDecl = append(resDecl, fmt.Sprintf("\tvar %s %s\n\t_ = %s\n", rn, g.typeStr(sig.Results().At(i).Type()), rn))
	}
	for _, d := range resDecl {
		body.WriteString(d)
	}
	var call string
	switch {
	case fn.Parent() != nil:
		outer := fn.Parent()
		var oargs []string
		for _, p := range outer.Params {
			fv, ok := freeVals[p.Name()]
			if !ok {
				return "", fmt.Errorf("closure replay: outer parameter %s is not a captured variable", p.Name())
			}
			oargs = append(oargs, fv)
		}
		if outer.Signature.Recv() != nil {
			return "", fmt.Errorf("closure of a method: replay not supported")
		}
		call = fmt.Sprintf("%s(%s)(%s)", outer.Name(), strings.Join(oargs, ", "), strings.Join(argNames, ", "))
	case sig.Recv() != nil:
		call = fmt.Sprintf("%s.%s(%s)", argNames[0], fn.Name(), strings.Join(argNames[1:], ", "))
	default:
		call = fmt.Sprintf("%s(%s)", fn.Name(), strings.Join(argNames, ", "))
	}
	assign := ""
	if len(resNames) > 0 {
		assign = strings.Join(resNames, ", ") + " = "
	}
	fmt.Fprintf(&body, "\tpanicked := func() (hvcP interface{}) {\n\t\tdefer func() { hvcP = recover() }()\n\t\t%s%s\n\t\treturn nil\n\t}()\n", assign, call)
	allowPanic := "false"
	fmt.Fprintf(&body, "\tif panicked != nil && !%s {\n\t\tfmt.Printf(\"HVC-REPLAY: reproduced: %s panicked: %%v\\n\", panicked)\n\t\treturn\n\t}\n", allowPanic, fn.Name())
	// result aliases
	if len(resNames) == 1 {
		body.WriteString("\tresult := result0\n\t_ = result\n")
		sc.vars["result"] = sig.Results().At(0).Type()
	}
	for i := 0; i < sig.Results().Len(); i++ {
		sc.vars[resNames[i]] = sig.Results().At(i).Type()
		if n := sig.Results().At(i).Name(); n != "" && n != "_" {
			if _, clash := sc.vars[n]; !clash {
				fmt.Fprintf(&body, "\t%s := %s\n\t_ = %s\n", n, resNames[i], n)
				sc.vars[n] = sig.Results().At(i).Type()
			}
		}
	}
	// the failed clause (ensures), or all ensures for other kinds
	var clauses []*Clause
	if o.Kind == "ensures" && o.Clause != nil {
		clauses = []*Clause{o.Clause}
	} else {
		// an inner obligation (invariant, callee precondition, ...) failed: the model's inputs are tried
		// against every postcondition of the function (a run-time contract check on the real code)
		clauses = fc.Ensures
	}
	for _, c := range clauses {
		code, _ := g.expr(c.Expr, sc)
		if g.err != nil {
			if len(clauses) > 1 {
				g.err = nil
				continue
			}
			return "", g.err
		}
		fmt.Fprintf(&body, "\tif !(%s) {\n\t\tfmt.Println(\"HVC-REPLAY: reproduced: clause is false on the real code:\", %q)\n\t\tfmt.Printf(\"HVC-REPLAY: inputs: %s\\n\"%s)\n\t\treturn\n\t}\n", code, c.Src, fmtVerbs(argNames, resNames), fmtArgs(argNames, resNames))
	}
	body.WriteString("\tfmt.Println(\"HVC-REPLAY: not reproduced\")\n")
	if g.err != nil {
		return "", g.err
	}
	decls := g.specFuncDecls()
	if g.err != nil {
		return "", g.err
	}
	var sb strings.Builder
	sb.WriteString(header)
	fmt.Fprintf(&sb, "// package: %s\n// function: %s\n\npackage %s\n\nimport (\n\t\"fmt\"\n\t\"testing\"\n", pkg.Path(), fn.Name(), pkg.Name())
	var imps []string
	for p := range g.imports {
		imps = append(imps, p)
	}
	sort.Strings(imps)
	for _, p := range imps {
		if p == "fmt" || p == "testing" {
			continue
		}
		fmt.Fprintf(&sb, "\t%s %q\n", g.imports[p], p)
	}
	sb.WriteString(")\n\n")
	sb.WriteString(decls)
	for _, d := range g.stubDecls {
		sb.WriteString("\n" + d)
	}
	sb.WriteString("\nfunc TestHvcReplay(hvcT *testing.T) {\n")
	sb.WriteString(body.String())
	sb.WriteString("}\n")
	return sb.String(), nil
}

func fmtVerbs(a, r []string) string {
	var parts []string
	for _, n := range a {
		parts = append(parts, n+"=%v")
	}
	for _, n := range r {
		parts = append(parts, n+"=%v")
	}
	return strings.Join(parts, " ")
}

func fmtArgs(a, r []string) string {
	s := ""
	for _, n := range a {
		s += ", " + n
	}
	for _, n := range r {
		s += ", " + n
	}
	return s
}

// stubOtherTests maps the package's own _test.go files to empty files in the overlay, so that
// the injected test builds quickly and independently of them.
func stubOtherTests(pdir, tmp string, repl map[string]string) {
	ents, err := os.ReadDir(pdir)
	if err != nil {
		return
	}
	for _, e := range ents {
		if !strings.HasSuffix(e.Name(), "_test.go") {
			continue
		}
		data, err := os.ReadFile(filepath.Join(pdir, e.Name()))
		if err != nil {
			continue
		}
		pk := ""
		for _, ln := range strings.Split(string(data), "\n") {
			if strings.HasPrefix(ln, "package ") {
				pk = strings.Fields(strings.TrimPrefix(ln, "package "))[0]
				break
			}
		}
		if pk == "" {
			continue
		}
		stub := filepath.Join(tmp, "stub_"+e.Name())
		_ = os.WriteFile(stub, []byte("package "+pk+"\n"), 0o644)
		repl[filepath.Join(pdir, e.Name())] = stub
	}
}

// runReplayFile injects the replay test into its package with -overlay and runs it.
func (v *Verifier) runReplayFile(file string, fn *ssa.Function) ReplayResult {
	res := ReplayResult{File: file}
	data, err := os.ReadFile(file)
	if err != nil {
		res.Detail = err.Error()
		return res
	}
	pkgPath := ""
	for _, ln := range strings.Split(string(data), "\n") {
		if strings.HasPrefix(ln, "// package: ") {
			pkgPath = strings.TrimSpace(strings.TrimPrefix(ln, "// package: "))
		}
	}
	if pkgPath == "" {
		res.Detail = "replay file has no executable part"
		return res
	}
	rel := strings.TrimPrefix(strings.TrimPrefix(pkgPath, "github.com/biogo/hts"), "/")
	dir := filepath.Join(activeRepoDir, rel)
	tmp, err := os.MkdirTemp("", "hvc-replay-")
	if err != nil {
		res.Detail = err.Error()
		return res
	}
	defer os.RemoveAll(tmp)
	repl := map[string]string{filepath.Join(dir, "zz_hvc_replay_test.go"): file}
	stubOtherTests(dir, tmp, repl)
	ov := map[string]map[string]string{"Replace": repl}
	ovData, _ := json.Marshal(ov)
	ovFile := filepath.Join(tmp, "ov.json")
	_ = os.WriteFile(ovFile, ovData, 0o644)
	ctx, cancel := context.WithTimeout(context.Background(), 120*time.Second)
	defer cancel()
	cmd := exec.CommandContext(ctx, "bash", "-c", fmt.Sprintf("ulimit -v 4000000; cd %s && go test -overlay %s -vet=off -count=1 -v -timeout 60s -run '^TestHvcReplay$' .", dir, ovFile))
	cmd.Env = append(os.Environ(), "GOFLAGS=-mod=mod", "GOPROXY=off", "GOSUMDB=off", "GOTOOLCHAIN=local", "GOCACHE="+filepath.Join(tmp, "gocache"))
	// reuse the default build cache when available (faster); fall back to tmp
	if hc, err := os.UserCacheDir(); err == nil {
		cmd.Env = append(cmd.Env, "GOCACHE="+filepath.Join(hc, "go-build"))
	}
	var out bytes.Buffer
	cmd.Stdout = &out
	cmd.Stderr = &out
	_ = cmd.Run()
	res.Ran = true
	text := out.String()
	for _, ln := range strings.Split(text, "\n") {
		if strings.HasPrefix(ln, "HVC-REPLAY: reproduced") {
			res.Reproduced = true
			res.Detail = strings.TrimPrefix(ln, "HVC-REPLAY: ")
		} else if strings.HasPrefix(ln, "HVC-REPLAY: inputs") {
			res.Detail += " | " + strings.TrimPrefix(ln, "HVC-REPLAY: ")
		} else if strings.HasPrefix(ln, "HVC-REPLAY:") && res.Detail == "" {
			res.Detail = strings.TrimPrefix(ln, "HVC-REPLAY: ")
		}
	}
	if !res.Reproduced && res.Detail == "" {
		res.Detail = "replay did not run to completion: " + firstLines(text, 6)
		if strings.Contains(text, "test timed out") {
			// the replay hung (e.g. a channel operation nobody answers in the test): nothing is shown
			res.Detail = "replay timed out (not counted as a reproduction): " + firstLines(text, 2)
		} else if strings.Contains(text, "panic:") && !strings.Contains(text, "[build failed]") {
			// an uncaught panic (e.g. runtime fatal) still demonstrates the failure
			res.Reproduced = true
			res.Detail = "reproduced: test binary crashed: " + firstLines(text, 3)
		}
	}
	return res
}

const streamSliceMax = 64

// isReaderType: an interface type with a Read([]byte) (int, error) method.
func isReaderType(t types.Type) bool {
	it, ok := t.Underlying().(*types.Interface)
	if !ok {
		return false
	}
	for i := 0; i < it.NumMethods(); i++ {
		if it.Method(i).Name() == "Read" {
			return true
		}
	}
	return false
}

func (rc *replayCtx) wantStream(root *RootCtx) {
	tc := rc.fx.tc
	for _, sr := range root.stream {
		rc.want(sr.PC)
		rc.want(sr.ErrTag)
		for _, t := range sr.Terms {
			rc.want(t)
		}
		if sr.Heap != nil {
			rc.want(sr.Len)
			for k := 0; k < streamSliceMax; k++ {
				rc.want(Select(Select(sr.Heap, sr.Arr), tc.IdxAdd(sr.Lo, tc.IdxNum(int64(k)))))
			}
		}
	}
}

// streamBytes serialises (little endian) the reads that the model executes, in order, up to the
// first read that the model makes fail: the reader ends there.
func (rc *replayCtx) streamBytes(root *RootCtx) []byte {
	tc := rc.fx.tc
	val := func(t *Term) (*big.Int, bool) {
		if t == nil {
			return big.NewInt(0), false
		}
		if t == True {
			return nil, true
		}
		if t == False {
			return nil, false
		}
		if t.IsNum() {
			return t.Val, false
		}
		k, ok := rc.index[t]
		if !ok || k >= len(rc.vals) {
			return big.NewInt(0), false
		}
		v, b, ok := parseSMTValue(rc.vals[k])
		if !ok {
			return big.NewInt(0), false
		}
		if v == nil {
			return nil, b
		}
		return v, false
	}
	var out []byte
	put := func(v *big.Int, w int) {
		m := new(big.Int).Set(v)
		if m.Sign() < 0 {
			m.Add(m, new(big.Int).Lsh(big.NewInt(1), uint(8*w)))
		}
		for i := 0; i < w; i++ {
			out = append(out, byte(new(big.Int).And(new(big.Int).Rsh(m, uint(8*i)), big.NewInt(255)).Int64()))
		}
	}
	for _, sr := range root.stream {
		if _, on := val(sr.PC); !on {
			continue
		}
		if e, _ := val(sr.ErrTag); e != nil && e.Sign() != 0 {
			break
		}
		for i, t := range sr.Terms {
			v, b := val(t)
			if v == nil {
				v = big.NewInt(0)
				if b {
					v = big.NewInt(1)
				}
			}
			put(v, sr.Widths[i])
		}
		if sr.Heap != nil {
			n, _ := val(sr.Len)
			ln := int(signed64(n).Int64())
			if ln < 0 || ln > 1<<16 {
				break
			}
			for k := 0; k < ln; k++ {
				v := big.NewInt(0)
				if k < streamSliceMax {
					if x, _ := val(Select(Select(sr.Heap, sr.Arr), tc.IdxAdd(sr.Lo, tc.IdxNum(int64(k))))); x != nil {
						v = x
					}
				}
				put(v, sr.ElemW)
			}
		}
	}
	return out
}

// stubFor turns an interface input into a stub when every method of the (named) interface type is an
// observer (trusted contract  ensures result == uf(self)): the replay then builds a value of a
// test-local type whose methods return what the model says the observers return.
func (rc *replayCtx) stubFor(n *inNode, t types.Type, leaves []*Term, depth int) {
	fx := rc.fx
	named, ok := t.(*types.Named)
	if !ok || named.Obj().Pkg() == nil {
		return
	}
	it, ok := t.Underlying().(*types.Interface)
	if !ok || it.NumMethods() == 0 {
		return
	}
	var meths []string
	var rts []types.Type
	var nodes []*inNode
	for i := 0; i < it.NumMethods(); i++ {
		m := it.Method(i)
		sig := m.Type().(*types.Signature)
		if sig.Params().Len() != 0 || sig.Results().Len() != 1 {
			return
		}
		if !m.Exported() && m.Pkg() != fx.pkgTypes() {
			return
		}
		fc := fx.V.cs.Funcs[named.Obj().Pkg().Path()+"."+named.Obj().Name()+"."+m.Name()]
		if fc == nil {
			return
		}
		uf := observerUF(fc)
		if uf == "" {
			return
		}
		env := fx.entryEnv(fx.entry)
		env.vars["hvc$stub"] = SV{V: Value{T: t, L: leaves}}
		var sv SV
		func() {
			defer func() {
				if r := recover(); r != nil {
					uf = ""
				}
			}()
			sv = fx.evalSpec(env, &SCall{Fun: uf, Args: []SpecExpr{&SIdent{Name: "hvc$stub"}}})
		}()
		if uf == "" {
			return
		}
		meths = append(meths, m.Name())
		rts = append(rts, sig.Results().At(0).Type())
		nodes = append(nodes, rc.build(sig.Results().At(0).Type(), sv.V.L, depth+1))
	}
	n.kind = "stub"
	n.stubMethods, n.stubTypes, n.stubNodes = meths, rts, nodes
}
