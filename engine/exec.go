package main

// Symbolic execution of go/ssa functions into verification conditions.

import (
	"encoding/json"
	"fmt"
	"math/big"
	"go/token"
	"go/types"
	"sort"
	"strings"

	"golang.org/x/tools/go/ssa"
)

type Obligation struct {
	Name    string
	Func    string
	Kind    string
	Props   []string
	Path    *Term
	Cond    *Term
	NAssume int // number of root assumptions visible
	Pos     token.Position
	Clause  *Clause
	Desc    string
	Root    *RootCtx
	// results
	Status   string // unsat sat unknown timeout error
	Solver   string
	Time     float64
	Model    string
	SMTFile  string
	Bounded  bool
	AllowedBy string
}

type FrameItem struct {
	Kind   PtrKind // PObj or PElem
	Root   types.Type
	Ref    *Term // PObj
	Arr    *Term // PElem
	Lo, Hi *Term // PElem absolute index range [Lo,Hi)
	Off, N int   // leaf range within Root; N==0 means all
	Src    string
}

// RootCtx is shared by one verified function and everything inlined into it.
type RootCtx struct {
	Name          string
	assumes       []*Term
	assumeNotes   []string
	axioms        []*Term
	obls          []*Obligation
	heapAxiomDone map[*Term]bool
	counters      map[string]int
	entryNAlloc   *Term
	frame         []FrameItem
	entry         *State
	notes         []string
	inputs        []InputBinding
	mode          Mode
	allocSites    int
	pendingRefs   []*Term
	boundedK      int // >0: bounded instance search, loops unrolled K times
	sentinels     []*Term
	top           *FnCtx
	// reads from input streams in the order they were executed symbolically (see StreamRead)
	stream    []*StreamRead
	streamBad bool
}

// StreamRead records one read from a reader (binary.Read, io.ReadFull) so that a counterexample
// can be turned into the bytes the reader must deliver.
type StreamRead struct {
	PC     *Term
	Terms  []*Term // fixed-size reads: the values delivered, in stream order
	Widths []int   // width in bytes of each value
	ErrTag *Term   // type tag of the returned error (0: nil)
	// reads into a slice: bytes Heap[Arr][Lo .. Lo+Len)
	Heap, Arr, Lo, Len *Term
	ElemW              int
}

type InputBinding struct {
	Name string
	V    Value
}

type Verifier struct {
	prog       *ssa.Program
	pkgs       map[string]*ssa.Package
	fset       *token.FileSet
	cs         *Contracts
	heapLeaves map[string]heapInfo
	tcs        map[Mode]*Tcx
	tables     map[string][]string // extracted global tables: "pkg.name" -> flat values
	warnings   []string
	inlineDepthMax int
	bounds     map[*Term]*big.Int
	typeTags   map[string]int
	tagTypes   map[int]types.Type
	tableRaw    map[string]json.RawMessage
	strConsts   map[string]int
	usedTrusted map[string]bool
	usedAuto    map[string]bool
}

type FnCtx struct {
	V      *Verifier
	tc     *Tcx
	root   *RootCtx
	fn     *ssa.Function
	fc     *FuncContract
	prefix string
	vals   map[ssa.Value]Value
	params map[string]Value
	entry  *State // state at entry of this activation
	depth  int
	loops  *loopForest
	bindings []Value
	resultNames map[string]int
	topLevel bool
	deferred []*ssa.Defer
	curPos token.Pos
	regions map[*ssa.Alloc]*Region
	// pointers wrapped into interface values (binary.Read(r, order, &x)): the engine-level pointer by MakeInterface
	ifacePtrs map[ssa.Value]*PtrInfo
	appendSites map[ssa.Instruction]int
	storeSites  map[ssa.Instruction]int
	stmtSites   map[ssa.Instruction]string
	beforeSites map[ssa.Instruction]string // "before stmt ..." sites: fire before the first call of the line
	unrollTag string // suffix making obligation names unique inside unrolled loops
	pureEval  bool   // evaluating the body of an opaque spec function: memory must not be read
	assumeTag string
	opaqueDepth int
}

type execError struct{ msg string }

func (e execError) Error() string { return e.msg }

func (fx *FnCtx) fail(f string, a ...interface{}) {
	pos := ""
	if fx.curPos.IsValid() {
		p := fx.V.fset.Position(fx.curPos)
		pos = fmt.Sprintf(" (%s:%d)", shortFile(p.Filename), p.Line)
	}
	panic(execError{fmt.Sprintf("%s: %s%s", fx.fn.Name(), fmt.Sprintf(f, a...), pos)})
}

func shortFile(f string) string {
	return strings.TrimPrefix(f, "/repo/")
}

func (fx *FnCtx) assume(t *Term) {
	if t == True {
		return
	}
	fx.root.assumes = append(fx.root.assumes, t)
	fx.root.assumeNotes = append(fx.root.assumeNotes, fx.assumeTag)
}

// assumeTagged records a hypothesis together with its origin (used to select hypotheses per goal).
func (fx *FnCtx) assumeTagged(t *Term, tag string) {
	save := fx.assumeTag
	fx.assumeTag = tag
	fx.assume(t)
	fx.assumeTag = save
}

func (fx *FnCtx) oblName(kind string) string {
	k := fx.prefix + ":" + kind
	n := fx.root.counters[k]
	fx.root.counters[k] = n + 1
	return fmt.Sprintf("%s#%d", k, n)
}

func (fx *FnCtx) addObl(name, kind string, pc, cond *Term, props []string, cl *Clause, desc string) *Obligation {
	o := &Obligation{Name: name, Func: fx.root.Name, Kind: kind, Props: props, Path: pc, Cond: cond,
		NAssume: len(fx.root.assumes), Clause: cl, Desc: desc, Root: fx.root}
	if fx.curPos.IsValid() {
		o.Pos = fx.V.fset.Position(fx.curPos)
	}
	if cl != nil {
		cl.used++
	}
	fx.root.obls = append(fx.root.obls, o)
	return o
}

// safety obligation; a trivially true condition generates nothing.
func (fx *FnCtx) safety(kind string, pc, cond *Term, desc string) {
	if cond == True || pc == False {
		fx.root.counters[fx.prefix+":"+kind]++ // keep numbering stable
		return
	}
	fx.addObl(fx.oblName(kind), kind, pc, cond, nil, nil, desc)
	// after the check the program continues only if it held
	fx.assume(Implies(pc, cond))
}

// ---------------------------------------------------------------------------
// loop forest

type loopInfo struct {
	header   *ssa.BasicBlock
	blocks   map[*ssa.BasicBlock]bool
	parent   *loopInfo
	children []*loopInfo
	ord      int
	spec     *LoopSpec
	liveOut  []ssa.Value
}

type loopForest struct {
	byHeader map[*ssa.BasicBlock]*loopInfo
	inner    map[*ssa.BasicBlock]*loopInfo // innermost loop containing block
	rpo      []*ssa.BasicBlock
	rpoIdx   map[*ssa.BasicBlock]int
	loops    []*loopInfo
}

func buildLoops(fn *ssa.Function) *loopForest {
	lf := &loopForest{byHeader: map[*ssa.BasicBlock]*loopInfo{}, inner: map[*ssa.BasicBlock]*loopInfo{}, rpoIdx: map[*ssa.BasicBlock]int{}}
	// back edges: u->v with v dominating u
	for _, b := range fn.Blocks {
		for _, s := range b.Succs {
			if s.Dominates(b) {
				li := lf.byHeader[s]
				if li == nil {
					li = &loopInfo{header: s, blocks: map[*ssa.BasicBlock]bool{s: true}}
					lf.byHeader[s] = li
				}
				// nodes reaching b without passing s
				var stack []*ssa.BasicBlock
				if !li.blocks[b] {
					li.blocks[b] = true
					stack = append(stack, b)
				}
				for len(stack) > 0 {
					x := stack[len(stack)-1]
					stack = stack[:len(stack)-1]
					for _, p := range x.Preds {
						if !li.blocks[p] {
							li.blocks[p] = true
							stack = append(stack, p)
						}
					}
				}
			}
		}
	}
	for _, li := range lf.byHeader {
		lf.loops = append(lf.loops, li)
	}
	sort.Slice(lf.loops, func(i, j int) bool { return lf.loops[i].header.Index < lf.loops[j].header.Index })
	for i, li := range lf.loops {
		li.ord = i
	}
	// nesting: parent = smallest strictly containing loop
	for _, li := range lf.loops {
		for _, lj := range lf.loops {
			if li == lj || !lj.blocks[li.header] || len(lj.blocks) <= len(li.blocks) {
				continue
			}
			if li.parent == nil || len(lj.blocks) < len(li.parent.blocks) {
				li.parent = lj
			}
		}
	}
	for _, li := range lf.loops {
		if li.parent != nil {
			li.parent.children = append(li.parent.children, li)
		}
	}
	for _, b := range fn.Blocks {
		for _, li := range lf.loops {
			if li.blocks[b] {
				if cur := lf.inner[b]; cur == nil || len(li.blocks) < len(cur.blocks) {
					lf.inner[b] = li
				}
			}
		}
	}
	// reverse postorder over forward edges
	seen := map[*ssa.BasicBlock]bool{}
	var post []*ssa.BasicBlock
	var dfs func(b *ssa.BasicBlock)
	dfs = func(b *ssa.BasicBlock) {
		seen[b] = true
		for _, s := range b.Succs {
			if seen[s] || s.Dominates(b) {
				continue
			}
			dfs(s)
		}
		post = append(post, b)
	}
	if len(fn.Blocks) > 0 {
		dfs(fn.Blocks[0])
	}
	for i := len(post) - 1; i >= 0; i-- {
		lf.rpoIdx[post[i]] = len(lf.rpo)
		lf.rpo = append(lf.rpo, post[i])
	}
	// live-out values
	for _, li := range lf.loops {
		for b := range li.blocks {
			for _, ins := range b.Instrs {
				v, ok := ins.(ssa.Value)
				if !ok {
					continue
				}
				refs := v.Referrers()
				if refs == nil {
					continue
				}
				for _, r := range *refs {
					if !li.blocks[r.Block()] {
						li.liveOut = append(li.liveOut, v)
						break
					}
				}
			}
		}
		sort.Slice(li.liveOut, func(i, j int) bool { return li.liveOut[i].Name() < li.liveOut[j].Name() })
	}
	return lf
}

// ---------------------------------------------------------------------------
// edges and block execution

type Edge struct {
	from, to *ssa.BasicBlock
	st       *State
	reach    *Term
	phiVals  map[*ssa.Phi]Value
	snap     map[ssa.Value]Value
}

type retInfo struct {
	st    *State
	reach *Term
	vals  []Value
}

type regionResult struct {
	exits []*Edge
	backs []*Edge
}

// mergeHeapTerm is ite(c, b, a) for two versions of a heap, written so that a difference confined
// to one location stays confined to it: ite(c, store(a, i, v), a) = store(a, i, ite(c, v, a[i])).
// Reads of other locations then do not pass through an if-then-else at all.
func mergeHeapTerm(c, b, a *Term) *Term {
	if a == b {
		return a
	}
	if b.Op == "store" && b.Args[0] == a {
		return Store(a, b.Args[1], mergeHeapTerm(c, b.Args[2], Select(a, b.Args[1])))
	}
	if a.Op == "store" && a.Args[0] == b {
		return Store(b, a.Args[1], mergeHeapTerm(c, Select(b, a.Args[1]), a.Args[2]))
	}
	if a.Op == "store" && b.Op == "store" && a.Args[0] == b.Args[0] && a.Args[1] == b.Args[1] {
		return Store(a.Args[0], a.Args[1], mergeHeapTerm(c, b.Args[2], a.Args[2]))
	}
	return Ite(c, b, a)
}

func (fx *FnCtx) mergeStates(edges []*Edge) *State {
	if len(edges) == 1 {
		return edges[0].st.Clone()
	}
	out := edges[0].st.Clone()
	for i := 1; i < len(edges); i++ {
		e := edges[i]
		c := e.reach
		// heaps
		keys := map[string]bool{}
		for k := range out.Heaps {
			keys[k] = true
		}
		for k := range e.st.Heaps {
			keys[k] = true
		}
		for k := range keys {
			hi := fx.V.heapLeaves[k]
			a, okA := out.Heaps[k]
			b, okB := e.st.Heaps[k]
			if !okA {
				if k[0] == 'M' {
					a = fx.mapHeap(out, k)
				} else {
					a = fx.initialHeap(k, hi.Sort, hi.Leaf)
				}
			}
			if !okB {
				if k[0] == 'M' {
					b = fx.mapHeap(e.st, k)
				} else {
					b = fx.initialHeap(k, hi.Sort, hi.Leaf)
				}
			}
			if a != b {
				m := mergeHeapTerm(c, b, a)
				if top := fx.root.top; top != nil && top.fc != nil && top.fc.NameMerges && k[0] == 'A' && m.Op == "store" && m.Args[2].Op == "ite" {
					// name the merged contents of the one array that differs
					sym := Fresh("merge_"+k, m.Args[2].Sort)
					fx.assume(Eq(sym, m.Args[2]))
					m = Store(m.Args[0], m.Args[1], sym)
				}
				out.Heaps[k] = m
			} else {
				out.Heaps[k] = a
			}
		}
		for r, bv := range e.st.Locals {
			av, ok := out.Locals[r]
			if !ok {
				out.Locals[r] = bv
				continue
			}
			m, err := iteValue(c, bv, av)
			if err != nil {
				fx.fail("merging local %s: %v", r.Name, err)
			}
			out.Locals[r] = m
		}
		for g, bv := range e.st.Globals {
			av, ok := out.Globals[g]
			if !ok {
				av = fx.globalValue(out, g)
			}
			m, err := iteValue(c, bv, av)
			if err != nil {
				fx.fail("merging global: %v", err)
			}
			out.Globals[g] = m
		}
		for g := range out.Globals {
			if _, ok := e.st.Globals[g]; !ok {
				bv := fx.globalValue(e.st, g)
				m, err := iteValue(c, bv, out.Globals[g])
				if err != nil {
					fx.fail("merging global: %v", err)
				}
				out.Globals[g] = m
			}
		}
		for k, bv := range e.st.Ghost {
			av, ok := out.Ghost[k]
			if !ok {
				out.Ghost[k] = bv
				continue
			}
			m, err := iteValue(c, bv, av)
			if err != nil {
				fx.fail("merging ghost: %v", err)
			}
			out.Ghost[k] = m
		}
		out.NAlloc = Ite(c, e.st.NAlloc, out.NAlloc)
	}
	return out
}

func (fx *FnCtx) phiValue(phi *ssa.Phi, b *ssa.BasicBlock, edges []*Edge) Value {
	var cur Value
	first := true
	for i := len(edges) - 1; i >= 0; i-- {
		e := edges[i]
		var v Value
		if e.phiVals != nil {
			pv, ok := e.phiVals[phi]
			if !ok {
				fx.fail("missing phi override")
			}
			v = pv
		} else {
			idx := -1
			for k, p := range b.Preds {
				if p == e.from {
					idx = k
					break
				}
			}
			if idx < 0 {
				fx.fail("edge source is not a predecessor")
			}
			v = fx.val(phi.Edges[idx])
		}
		if first {
			cur = v
			first = false
		} else {
			m, err := iteValue(e.reach, v, cur)
			if err != nil {
				fx.fail("phi %s: %v", phi.Name(), err)
			}
			cur = m
		}
	}
	return cur
}

func orReach(edges []*Edge) *Term {
	var rs []*Term
	for _, e := range edges {
		rs = append(rs, e.reach)
	}
	return Or(rs...)
}

// runRegion executes the blocks of a region (whole function when li == nil) in
// reverse postorder, with child loops handled as super nodes.
func (fx *FnCtx) runRegion(li *loopInfo, entry *ssa.BasicBlock, incoming []*Edge, rets *[]retInfo) regionResult {
	var res regionResult
	pending := map[*ssa.BasicBlock][]*Edge{entry: incoming}
	inRegion := func(b *ssa.BasicBlock) bool { return li == nil || li.blocks[b] }
	deliver := func(e *Edge) {
		if e.reach == False {
			return
		}
		if li != nil && e.to == li.header {
			res.backs = append(res.backs, e)
			return
		}
		if !inRegion(e.to) {
			if li != nil {
				e.snap = map[ssa.Value]Value{}
				for _, v := range li.liveOut {
					if x, ok := fx.vals[v]; ok {
						e.snap[v] = x
					}
				}
			}
			res.exits = append(res.exits, e)
			return
		}
		pending[e.to] = append(pending[e.to], e)
	}
	for _, b := range fx.loops.rpo {
		if !inRegion(b) {
			continue
		}
		// blocks of child loops are handled by handleLoop at their header
		inner := fx.loops.inner[b]
		if inner != li {
			// find the child loop of li that contains b
			c := inner
			for c != nil && c.parent != li {
				c = c.parent
			}
			if c == nil {
				continue
			}
			if b != c.header {
				continue
			}
			inc := pending[b]
			if len(inc) == 0 {
				continue
			}
			exits := fx.handleLoop(c, inc, rets)
			for _, e := range exits {
				e.snap = nil
				deliver(e)
			}
			continue
		}
		inc := pending[b]
		if len(inc) == 0 {
			continue
		}
		outs := fx.execBlock(b, inc, rets)
		for _, e := range outs {
			deliver(e)
		}
	}
	return res
}

func (fx *FnCtx) execBlock(b *ssa.BasicBlock, incoming []*Edge, rets *[]retInfo) []*Edge {
	reach := orReach(incoming)
	if reach == False {
		return nil
	}
	st := fx.mergeStates(incoming)
	// phis first (parallel semantics: compute all from incoming values before assigning)
	var phis []*ssa.Phi
	var pvals []Value
	for _, ins := range b.Instrs {
		phi, ok := ins.(*ssa.Phi)
		if !ok {
			break
		}
		phis = append(phis, phi)
		pvals = append(pvals, fx.phiValue(phi, b, incoming))
	}
	for i, phi := range phis {
		fx.vals[phi] = pvals[i]
	}
	for _, ins := range b.Instrs[len(phis):] {
		if ins.Pos().IsValid() {
			fx.curPos = ins.Pos()
		}
		switch t := ins.(type) {
		case *ssa.If:
			c := fx.val(t.Cond).L[0]
			e1 := &Edge{from: b, to: b.Succs[0], st: st, reach: And(reach, c)}
			e2 := &Edge{from: b, to: b.Succs[1], st: st.Clone(), reach: And(reach, Not(c))}
			return []*Edge{e1, e2}
		case *ssa.Jump:
			return []*Edge{{from: b, to: b.Succs[0], st: st, reach: reach}}
		case *ssa.Return:
			// deferred calls have already been run by the RunDefers instruction that go/ssa places
			// before every return of a function with defers
			if site, isSite := fx.stmtSites[t]; isSite && fx.topLevel && fx.fc != nil {
				env := fx.entryEnv(st)
				env.oldEnv = fx.entryEnv(fx.entry)
				env.pc = reach
				env.lookup = fx.siteLookup(st, t)
				fx.runGhost(site, st, env)
			}
			var vs []Value
			for _, r := range t.Results {
				vs = append(vs, fx.val(r))
			}
			*rets = append(*rets, retInfo{st: st, reach: reach, vals: vs})
			return nil
		case *ssa.Panic:
			fx.explicitPanic(st, reach, t)
			return nil
		default:
			fx.execInstr(st, reach, ins)
		}
	}
	return nil
}

func (fx *FnCtx) explicitPanic(st *State, reach *Term, p *ssa.Panic) {
	// allowed when a "panics when" clause covers it (top-level function only)
	allowed := False
	if fx.fc != nil && fx.topLevel {
		for _, c := range fx.fc.Panics {
			env := fx.entryEnv(st)
			allowed = Or(allowed, fx.evalBool(env, c.Expr))
			c.used++
		}
	}
	desc := "explicit panic reachable"
	if c, ok := p.X.(*ssa.MakeInterface); ok {
		if k, ok := c.X.(*ssa.Const); ok {
			desc = "explicit panic reachable: " + k.Value.String()
		}
	}
	if reach == False {
		return
	}
	fx.addObl(fx.oblName("panic"), "panic", reach, allowed, nil, nil, desc)
}

// ---------------------------------------------------------------------------
// loops

func (fx *FnCtx) handleLoop(li *loopInfo, incoming []*Edge, rets *[]retInfo) []*Edge {
	var spec *LoopSpec
	if fx.fc != nil {
		spec = fx.fc.Loops[li.ord]
	}
	fx.curPos = li.header.Instrs[0].Pos()
	for _, ins := range li.header.Instrs {
		if ins.Pos().IsValid() {
			fx.curPos = ins.Pos()
			break
		}
	}
	if spec != nil && spec.Unroll > 0 {
		return fx.unrollLoop(li, spec, incoming, rets)
	}
	if fx.root.boundedK > 0 {
		// bounded instance search: explore executions with at most K iterations of this loop
		return fx.unrollLoop(li, &LoopSpec{Unroll: fx.root.boundedK, Bounded: true}, incoming, rets)
	}
	if spec == nil || (len(spec.Invariants) == 0 && len(spec.Assumes) == 0) {
		if k, ok := constTripCount(li); ok && k <= 16 {
			return fx.unrollLoop(li, &LoopSpec{Unroll: k}, incoming, rets)
		}
		if !isSliceRangeLoop(li) {
			fx.fail("loop %d has no invariant", li.ord)
		}
		// a range loop over a slice, array or string needs no annotation for its index: the bounds of
		// the hidden index hold by construction (assumed below); everything else the loop changes
		// is unknown after it
		if spec == nil {
			spec = &LoopSpec{}
		}
	}
	hdr := li.header
	reachE := orReach(incoming)
	stE := fx.mergeStates(incoming)
	var phis []*ssa.Phi
	for _, ins := range hdr.Instrs {
		if phi, ok := ins.(*ssa.Phi); ok {
			phis = append(phis, phi)
		} else {
			break
		}
	}
	// 1. invariants on entry
	entryVals := map[*ssa.Phi]Value{}
	for _, phi := range phis {
		entryVals[phi] = fx.phiValue(phi, hdr, incoming)
	}
	lname := fmt.Sprintf("loop%d%s", li.ord, fx.unrollTag)
	envE := fx.loopEnv(li, stE, entryVals)
	for _, c := range spec.Invariants {
		cond := fx.evalBool(envE, c.Expr)
		fx.addObl(fx.prefix+":"+lname+"."+c.Label+"/entry", "invariant-entry", reachE, cond, c.Props, c, "loop invariant holds on entry: "+c.Src)
	}
	// 2. havoc
	stH := stE.Clone()
	fx.havocLoop(li, stH, reachE)
	hv := map[*ssa.Phi]Value{}
	for _, phi := range phis {
		v, err := fx.havocLike(entryVals[phi], lname+"_"+phiName(phi))
		if err != nil {
			fx.fail("loop %d: phi %s: %v", li.ord, phi.Name(), err)
		}
		fx.validRefs(v, stH, reachE)
		hv[phi] = v
	}
	if isSliceRangeLoop(li) {
		// -1 <= hidden index <= len-1 at the head of a range loop (Go semantics of range)
		if idx, lenV := rangeLoopParts(li); idx != nil {
			if lv, ok := fx.vals[lenV]; ok || isConstValue(lenV) {
				if !ok {
					lv = fx.val(lenV)
				}
				tc := fx.tc
				x := hv[idx].L[0]
				fx.assume(Implies(reachE, And(tc.IdxLe(tc.IdxSub(tc.IdxNum(0), tc.IdxNum(1)), x), tc.IdxLt(x, tc.IdxAdd(lv.L[0], tc.IdxNum(0))), tc.IdxLe(lv.L[0], tc.IdxNum(maxSliceLen)))))
			}
		}
	}
	envH := fx.loopEnv(li, stH, hv)
	// Equational invariants become substitutions: a top-level conjunct "h == t" where h is a
	// havoc symbol of a header phi and t does not mention such symbols replaces h by t. This is
	// only a use of the assumed equality; it keeps index terms free of needless symbols.
	havocSyms := map[*Term]bool{}
	for _, phi := range phis {
		for _, l := range hv[phi].L {
			if l.Op == "sym" {
				havocSyms[l] = true
			}
		}
	}
	subst := map[*Term]*Term{}
	mentions := func(t *Term) bool {
		found := false
		seen := map[*Term]bool{}
		var w func(x *Term)
		w = func(x *Term) {
			if found || seen[x] {
				return
			}
			seen[x] = true
			if havocSyms[x] {
				found = true
				return
			}
			for _, a := range x.Args {
				w(a)
			}
		}
		w(t)
		return found
	}
	for _, c := range spec.Invariants {
		t := fx.evalBool(envH, c.Expr)
		var conj []*Term
		if t.Op == "and" {
			conj = t.Args
		} else {
			conj = []*Term{t}
		}
		for _, e := range conj {
			if e.Op != "=" {
				continue
			}
			a, b := e.Args[0], e.Args[1]
			if havocSyms[b] && !havocSyms[a] {
				a, b = b, a
			}
			if havocSyms[a] && subst[a] == nil && !mentions(b) {
				subst[a] = b
			}
		}
	}
	if len(subst) > 0 {
		for _, phi := range phis {
			v := hv[phi]
			nv := Value{T: v.T, L: make([]*Term, len(v.L)), P: v.P, Fn: v.Fn}
			for i, l := range v.L {
				if r, ok := subst[l]; ok {
					nv.L[i] = r
				} else {
					nv.L[i] = l
				}
			}
			hv[phi] = nv
		}
		envH = fx.loopEnv(li, stH, hv)
	}
	for _, c := range spec.Invariants {
		fx.assumeTagged(Implies(reachE, fx.evalBool(envH, c.Expr)), "inv:"+c.Label)
	}
	for _, c := range spec.Assumes {
		fx.assumeTagged(Implies(reachE, fx.evalBool(envH, c.Expr)), "inv:shape-assumed")
		fx.root.noteOnce("assumed at the head of loop " + fmt.Sprint(li.ord) + " (not proved): " + c.Src)
	}
	var d0 *Term
	if spec.Decreases != nil {
		d0 = fx.evalInt(envH, spec.Decreases.Expr)
	}
	// 3. body
	start := &Edge{from: nil, to: hdr, st: stH, reach: reachE, phiVals: hv}
	res := fx.runRegion(li, hdr, []*Edge{start}, rets)
	// 4. back edges
	if len(res.backs) > 0 {
		reachB := orReach(res.backs)
		stB := fx.mergeStates(res.backs)
		backVals := map[*ssa.Phi]Value{}
		for _, phi := range phis {
			backVals[phi] = fx.phiValue(phi, hdr, res.backs)
		}
		envB := fx.loopEnv(li, stB, backVals)
		fx.runGhost(fmt.Sprintf("loop %d back", li.ord), stB, envB)
		envB.st = stB
		for _, c := range spec.Invariants {
			cond := fx.evalBool(envB, c.Expr)
			fx.addObl(fx.prefix+":"+lname+"."+c.Label+"/pres", "invariant-pres", reachB, cond, c.Props, c, "loop invariant preserved: "+c.Src)
		}
		if spec.Decreases != nil {
			d1 := fx.evalInt(envB, spec.Decreases.Expr)
			var cond *Term
			if fx.tc.Mode == ModeBV {
				cond = And(BVCmp("bvslt", d1, d0), BVCmp("bvsge", d0, BVNum(0, d0.Sort.Width)))
			} else {
				cond = And(ILt(d1, d0), ILe(IntNum(0), d0))
			}
			fx.addObl(fx.prefix+":"+lname+".decreases", "decreases", reachB, cond, spec.Decreases.Props, spec.Decreases, "loop variant decreases and is bounded below: "+spec.Decreases.Src)
		}
	}
	if spec.Decreases == nil && fx.fc != nil && (fx.fc.Decoder || fx.fc.Terminates) && !isSliceRangeLoop(li) {
		fx.fail("loop %d needs a decreases clause (termination is claimed)", li.ord)
	}
	return res.exits
}

func phiName(phi *ssa.Phi) string {
	if phi.Comment != "" {
		return phi.Comment
	}
	return phi.Name()
}

// validRefs assumes Go's memory-safety invariant for a value produced by havoc:
// references and array ids are below the allocation counter; slices are well-formed.
func (fx *FnCtx) validRefs(v Value, st *State, pc *Term) {
	tc := fx.tc
	if v.P != nil {
		if v.P.Kind == PObj {
			fx.assume(Implies(pc, tc.validRef(v.P.Ref, st.NAlloc)))
		}
		return
	}
	if v.Fn != nil || v.T == nil {
		return
	}
	lay := tc.Layout(v.T)
	for i, lf := range lay.Leaves {
		if lf.Sort.Kind == SArray || i >= len(v.L) {
			continue
		}
		switch lf.Kind {
		case "id":
			fx.assume(Implies(pc, tc.IdxLt(v.L[i], st.NAlloc)))
		case "ref":
			fx.assume(Implies(pc, tc.validRef(v.L[i], st.NAlloc)))
		}
	}
	fx.sliceShape(v, v.T, 0, pc)
}

// sliceShape: 0 <= len <= cap, sizes bounded, nil slices have zero capacity.
func (fx *FnCtx) sliceShape(v Value, t types.Type, off int, pc *Term) {
	tc := fx.tc
	big62 := tc.IdxNum(maxSliceLen)
	switch u := t.Underlying().(type) {
	case *types.Slice:
		id, o, ln, cp := v.L[off], v.L[off+1], v.L[off+2], v.L[off+3]
		fx.assume(Implies(pc, And(tc.IdxLe(ln, cp), tc.IdxLe(tc.IdxAdd(o, cp), big62), tc.IdxLe(o, big62), tc.IdxLe(cp, big62),
			Implies(Eq(id, tc.IdxNum(0)), Eq(cp, tc.IdxNum(0))))))
	case *types.Struct:
		for i := 0; i < u.NumFields(); i++ {
			fo, _ := tc.fieldRange(u, i)
			fx.sliceShape(v, u.Field(i).Type(), off+fo, pc)
		}
	}
}

// havocLike returns a value of fresh symbols shaped like v.
func (fx *FnCtx) havocLike(v Value, base string) (Value, error) {
	if v.P != nil {
		if v.P.Kind == PObj && len(v.P.ArrIdx) == 0 {
			p := *v.P
			p.Ref = Fresh(base+".ref", fx.tc.IdxSort())
			fx.assume(fx.tc.Ge0(p.Ref))
			return Value{T: v.T, P: &p}, nil
		}
		return Value{}, fmt.Errorf("engine-level pointer carried around a loop")
	}
	if v.Fn != nil {
		return v, nil
	}
	nv, facts := fx.tc.FreshValue(v.T, base)
	for _, f := range facts {
		fx.assume(f)
	}
	return nv, nil
}

// constTripCount recognises "for i := range <array or constant-length slice literal>".
func constTripCount(li *loopInfo) (int, bool) {
	// rangeindex loop: header has  t = phi [.., -1], next = t+1, cond next < len ; len constant
	for _, ins := range li.header.Instrs {
		if iff, ok := ins.(*ssa.If); ok {
			b, ok := iff.Cond.(*ssa.BinOp)
			if !ok || b.Op != token.LSS {
				return 0, false
			}
			switch y := b.Y.(type) {
			case *ssa.Const:
				if y.Value != nil {
					if v, ok := constInt64(y); ok {
						return int(v), true
					}
				}
			case *ssa.Call:
				if bi, ok := y.Call.Value.(*ssa.Builtin); ok && bi.Name() == "len" {
					if sl, ok := y.Call.Args[0].(*ssa.Slice); ok && sl.Low == nil && sl.High == nil {
						if pt, ok := sl.X.Type().Underlying().(*types.Pointer); ok {
							if at, ok := pt.Elem().Underlying().(*types.Array); ok {
								return int(at.Len()), true
							}
						}
					}
					if at, ok := y.Call.Args[0].Type().Underlying().(*types.Array); ok {
						return int(at.Len()), true
					}
					if pt, ok := y.Call.Args[0].Type().Underlying().(*types.Pointer); ok {
						if at, ok := pt.Elem().Underlying().(*types.Array); ok {
							return int(at.Len()), true
						}
					}
				}
			}
		}
	}
	return 0, false
}

func (fx *FnCtx) unrollLoop(li *loopInfo, spec *LoopSpec, incoming []*Edge, rets *[]retInfo) []*Edge {
	var exits []*Edge
	inc := incoming
	saveTag := fx.unrollTag
	defer func() { fx.unrollTag = saveTag }()
	for it := 0; it <= spec.Unroll; it++ {
		if len(inc) == 0 {
			break
		}
		fx.unrollTag = fmt.Sprintf("%s@%d", saveTag, it)
		res := fx.runRegion(li, li.header, inc, rets)
		exits = append(exits, res.exits...)
		inc = res.backs
	}
	if len(inc) > 0 {
		r := orReach(inc)
		if r != False {
			if spec.Bounded {
				fx.assume(Not(r))
			} else {
				fx.addObl(fx.oblName(fmt.Sprintf("loop%d.unwind", li.ord)), "unwind", r, False, nil, nil,
					fmt.Sprintf("loop %d finishes within %d iterations", li.ord, spec.Unroll))
			}
		}
	}
	// merge live-out values over the exits
	for _, v := range li.liveOut {
		var cur Value
		first := true
		for i := len(exits) - 1; i >= 0; i-- {
			e := exits[i]
			x, ok := e.snap[v]
			if !ok {
				continue
			}
			if first {
				cur, first = x, false
				continue
			}
			m, err := iteValue(e.reach, x, cur)
			if err != nil {
				fx.fail("merging live-out %s of unrolled loop: %v", v.Name(), err)
			}
			cur = m
		}
		if !first {
			fx.vals[v] = cur
		}
	}
	return exits
}

// ---------------------------------------------------------------------------
// values

func constInt64(c *ssa.Const) (int64, bool) {
	if c.Value == nil {
		return 0, false
	}
	if !isIntType(c.Type()) {
		return 0, false
	}
	if v := c.Int64(); true {
		return v, true
	}
	return 0, false
}

func (fx *FnCtx) val(v ssa.Value) Value {
	switch t := v.(type) {
	case *ssa.Const:
		return fx.constValue(t)
	case *ssa.Global:
		return Value{T: t.Type(), P: &PtrInfo{Kind: PGlobal, Global: t, Root: t.Type().(*types.Pointer).Elem(), Typ: t.Type().(*types.Pointer).Elem()}}
	case *ssa.Function:
		return Value{T: t.Type(), Fn: &FuncVal{Fn: t}}
	case *ssa.FreeVar:
		for i, fv := range fx.fn.FreeVars {
			if fv == t {
				if i < len(fx.bindings) {
					return fx.bindings[i]
				}
			}
		}
		if x, ok := fx.vals[v]; ok {
			return x
		}
		fx.fail("unbound free variable %s", t.Name())
	case *ssa.Builtin:
		fx.fail("builtin %s used as value", t.Name())
	}
	x, ok := fx.vals[v]
	if !ok {
		fx.fail("value %s (%T) used before definition", v.Name(), v)
	}
	return x
}

// isSliceRangeLoop recognises the code go/ssa emits for "for i[, v] := range <slice, array or string
// by index>": a hidden index that starts at -1, is incremented exactly once per iteration at the head
// of the loop and compared with a length computed before the loop. Such a loop terminates by
// construction (the index is not assignable), so no variant is demanded for it.
func isSliceRangeLoop(li *loopInfo) bool {
	var idx *ssa.Phi
	for _, ins := range li.header.Instrs {
		phi, ok := ins.(*ssa.Phi)
		if !ok {
			break
		}
		if phi.Comment == "rangeindex" {
			idx = phi
		}
	}
	if idx == nil {
		return false
	}
	for _, ins := range li.header.Instrs {
		iff, ok := ins.(*ssa.If)
		if !ok {
			continue
		}
		b, ok := iff.Cond.(*ssa.BinOp)
		if !ok || b.Op != token.LSS {
			return false
		}
		inc, ok := b.X.(*ssa.BinOp)
		if !ok || inc.Op != token.ADD || inc.X != idx || inc.Block() != li.header {
			return false
		}
		if c, ok := inc.Y.(*ssa.Const); !ok || c.Value == nil || c.Int64() != 1 {
			return false
		}
		// every other edge of the phi carries the increment
		for k, e := range idx.Edges {
			if li.blocks[li.header.Preds[k]] && e != inc {
				return false
			}
		}
		if lv, ok := b.Y.(ssa.Instruction); ok && li.blocks[lv.Block()] {
			return false
		}
		return true
	}
	return false
}

func isConstValue(v ssa.Value) bool { _, ok := v.(*ssa.Const); return ok }

// rangeLoopParts returns the hidden index phi of a slice range loop and the length it is compared with.
func rangeLoopParts(li *loopInfo) (*ssa.Phi, ssa.Value) {
	var idx *ssa.Phi
	for _, ins := range li.header.Instrs {
		phi, ok := ins.(*ssa.Phi)
		if !ok {
			break
		}
		if phi.Comment == "rangeindex" {
			idx = phi
		}
	}
	if idx == nil {
		return nil, nil
	}
	for _, ins := range li.header.Instrs {
		if iff, ok := ins.(*ssa.If); ok {
			if b, ok := iff.Cond.(*ssa.BinOp); ok && b.Op == token.LSS {
				return idx, b.Y
			}
		}
	}
	return nil, nil
}
