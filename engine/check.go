package main

// `hvc check <property>`: the command registered in MANIFEST.json.

import (
	"encoding/json"
	"flag"
	"fmt"
	"os"
	"path/filepath"
	"sort"
	"strconv"
	"strings"
	"time"

	"golang.org/x/tools/go/ssa"
)

const verifDir = "/verif"

type KnownFinding struct {
	Property   string `json:"property"`
	Obligation string `json:"obligation"`
	What       string `json:"what"`
}

type FixedEntry struct {
	Property string `json:"property"`
	Commit   string `json:"commit"`
	What     string `json:"what"`
}

type KnownFile struct {
	Findings []KnownFinding `json:"findings"`
	Fixed    []string       `json:"fixed"`
}

func loadKnown() KnownFile {
	var k KnownFile
	data, err := os.ReadFile(filepath.Join(verifDir, "known_findings.json"))
	if err == nil {
		_ = json.Unmarshal(data, &k)
	}
	return k
}

func hasProp(ps []string, id string) bool {
	for _, p := range ps {
		if p == id {
			return true
		}
	}
	return false
}

type checkUnit struct {
	key  string
	fc   *FuncContract
	fn   *ssa.Function
	root *RootCtx
	err  error
	lem  *Lemma
}

func cmdCheck(args []string) int {
	if len(args) < 1 {
		fmt.Fprintln(os.Stderr, "usage: hvc check <property> [--tier quick|thorough]")
		return 2
	}
	id := args[0]
	fs := flag.NewFlagSet("check", flag.ExitOnError)
	tier := fs.String("tier", os.Getenv("VERIF_TIER"), "quick|thorough")
	dir := fs.String("dir", repoDir, "repository")
	fs.Parse(args[1:])
	if *tier == "" {
		*tier = "quick"
	}
	seed := 0
	if s := os.Getenv("VERIF_SEED"); s != "" {
		seed, _ = strconv.Atoi(s)
	}
	start := time.Now()
	timeout := 20
	if *tier == "thorough" {
		timeout = 60
	}
	outDir := filepath.Join(verifDir, "out", id)
	if *dir != repoDir {
		// a run against another tree (must-fail corpus) keeps its files apart from the real check's
		outDir = filepath.Join(verifDir, "out", "alt", id)
	}
	_ = os.RemoveAll(outDir)
	_ = os.MkdirAll(filepath.Join(outDir, "replay"), 0o755)

	v, err := loadProgram(*dir)
	if err != nil {
		fmt.Printf("hvc: engine failure: cannot load %s: %v\n", *dir, err)
		return 2
	}
	// units: functions and lemmas serving this property
	var units []*checkUnit
	var keys []string
	for k := range v.cs.Funcs {
		keys = append(keys, k)
	}
	sort.Strings(keys)
	for _, k := range keys {
		fc := v.cs.Funcs[k]
		if fc.Trusted || fc.Inline && len(fc.Ensures) == 0 {
			continue
		}
		if !hasProp(fc.Props, id) {
			continue
		}
		units = append(units, &checkUnit{key: k, fc: fc})
	}
	for _, l := range v.cs.Lemmas {
		if hasProp(l.Props, id) {
			units = append(units, &checkUnit{key: l.Pkg + ".lemma." + l.Name, lem: l})
		}
	}
	if len(units) == 0 {
		fmt.Printf("hvc: engine failure: no contracts serve property %s\n", id)
		return 2
	}
	var obls []*Obligation
	var engineFailures []string
	var subsetViolations []*Obligation
	nFuncs := 0
	var funcNames []string
	// must-fail corpus only (HVC_ONLY_PKGS=dir1,dir2): a patch confined to some packages can only
	// change the obligations of functions of those packages (callers elsewhere see contracts, which
	// the patch does not touch), so the others are left out of that run
	var onlyPkgs []string
	if e := os.Getenv("HVC_ONLY_PKGS"); e != "" {
		onlyPkgs = strings.Split(e, ",")
	}
	inOnly := func(pkg string) bool {
		if len(onlyPkgs) == 0 {
			return true
		}
		for _, d := range onlyPkgs {
			if d != "" && (strings.HasSuffix(pkg, "/"+d) || pkg == d) {
				return true
			}
		}
		return false
	}
	for _, u := range units {
		if u.lem != nil && !inOnly(u.lem.Pkg) {
			continue
		}
		if u.lem == nil && u.fc != nil && !inOnly(u.fc.Pkg) {
			continue
		}
		if u.lem != nil {
			u.root, u.err = v.VerifyLemma(u.lem)
			if u.err != nil {
				engineFailures = append(engineFailures, fmt.Sprintf("lemma %s: %v", u.lem.Name, u.err))
				continue
			}
			obls = append(obls, u.root.obls...)
			continue
		}
		u.fn = v.findFunction(u.fc.Pkg, u.fc.Name)
		if u.fn == nil {
			// the function the contract is written for no longer exists: an obligation that cannot be generated
			o := &Obligation{Name: shortKey(u.key) + ":exists", Func: shortKey(u.key), Kind: "subset", Status: "unknown",
				Desc: "function under contract no longer exists in the package", Props: []string{id}}
			subsetViolations = append(subsetViolations, o)
			continue
		}
		u.root, u.err = v.VerifyFunction(u.fn, u.fc)
		nFuncs++
		funcNames = append(funcNames, shortKey(u.key))
		if u.err != nil {
			o := &Obligation{Name: shortKey(u.key) + ":translatable", Func: shortKey(u.key), Kind: "subset", Status: "unknown",
				Desc: "function left the verifiable subset or its contract no longer applies: " + u.err.Error(), Props: []string{id}}
			subsetViolations = append(subsetViolations, o)
			continue
		}
		for _, o := range u.root.obls {
			if oblServes(o, u.fc, id) {
				obls = append(obls, o)
			}
		}
		// clause coverage guard
		for _, c := range allClauses(u.fc) {
			if c.used == 0 {
				engineFailures = append(engineFailures, fmt.Sprintf("%s: clause generated no obligation: %s %s", shortKey(u.key), c.Kind, c.Src))
			}
		}
		for _, ga := range u.fc.GhostAt {
			if ga.used == 0 {
				engineFailures = append(engineFailures, fmt.Sprintf("%s: ghost site never reached: %s", shortKey(u.key), ga.Site))
			}
		}
	}
	if len(engineFailures) > 0 {
		for _, e := range engineFailures {
			fmt.Println("hvc: engine failure:", e)
		}
		return 2
	}
	dischargeAll(obls, filepath.Join(outDir, "smt"), timeout, 16)

	known := loadKnown()
	knownBy := map[string]KnownFinding{}
	for _, k := range known.Findings {
		if k.Property == id {
			knownBy[k.Obligation] = k
		}
	}
	unitOf := map[*RootCtx]*checkUnit{}
	for _, u := range units {
		if u.root != nil {
			unitOf[u.root] = u
		}
	}
	nDis, nKnown, nViol := 0, 0, 0
	bySolver := map[string]int{}
	solverTime := 0.0
	var samples []map[string]interface{}
	var violLines []string
	knownSeen := map[string]bool{}
	knownNames := []string{}
	report := func(o *Obligation, rr ReplayResult) {
		nViol++
		suffix := ""
		if !rr.Reproduced {
			suffix = " no-failing-input-found"
		}
		line := fmt.Sprintf("VIOLATION property=%s replay=%s obligation=%s%s", id, rr.File, o.Name, suffix)
		violLines = append(violLines, line)
		fmt.Printf("hvc: FAILED obligation %s [%s]: %s\n", o.Name, o.Status, o.Desc)
		if o.Pos.IsValid() {
			fmt.Printf("hvc:   at %s:%d\n", shortFile(o.Pos.Filename), o.Pos.Line)
		}
		if rr.Detail != "" {
			fmt.Printf("hvc:   replay: %s\n", rr.Detail)
		}
	}
	boundedCache := map[*checkUnit]*boundedResult{}
	fuzzCache := map[*checkUnit]ReplayResult{}
	all := append([]*Obligation{}, obls...)
	all = append(all, subsetViolations...)
	for _, o := range all {
		solverTime += o.Time
		ok := o.Status == "unsat"
		if o.Kind == "vacuity" {
			ok = o.Status != "unsat"
		}
		if o.Kind == "subset" {
			ok = false
		}
		if ok {
			nDis++
			bySolver[o.Solver]++
			if len(samples) < 6 {
				samples = append(samples, map[string]interface{}{"obligation": o.Name, "kind": o.Kind, "goal": o.Desc, "status": o.Status, "solver": o.Solver, "time_s": round3(o.Time), "smt_file": o.SMTFile})
			}
			continue
		}
		if kf, isKnown := knownBy[o.Name]; isKnown {
			nKnown++
			knownNames = append(knownNames, o.Name)
			knownSeen[o.Name] = true
			fmt.Printf("KNOWN-FINDING: property=%s %s: %s\n", id, o.Name, kf.What)
			continue
		}
		if o.Kind == "vacuity" {
			rr := ReplayResult{File: writeNote(outDir, o, "the function's preconditions/assumptions are contradictory: every obligation would hold vacuously")}
			report(o, rr)
			continue
		}
		if o.Kind == "subset" {
			rr := ReplayResult{File: writeNote(outDir, o, o.Desc)}
			report(o, rr)
			continue
		}
		if strings.HasPrefix(o.Solver, "not run") {
			// must-fail corpus runs only (HVC_FAILFAST): left out once enough obligations had failed
			continue
		}
		u := unitOf[o.Root]
		var rr ReplayResult
		if u != nil && u.fn != nil {
			rr = v.replayObligation(o, u.root.top, u.fn, u.fc, filepath.Join(outDir, "replay"), o.Model)
			if !rr.Reproduced && os.Getenv("HVC_NOSEARCH") == "" {
				// the direct model did not reproduce (quantified goal, or a havoced loop state):
				// search executions with few loop iterations for a concrete failing input
				K := 2
				if *tier == "thorough" {
					K = 4
				}
				if br, ok := v.boundedSearch(u, K, outDir, timeout, boundedCache); ok {
					br.Detail = "found by bounded instance search (loops unrolled " + strconv.Itoa(K) + "x): " + br.Detail
					rr = br
				} else if fr, done := fuzzCache[u]; done {
					if fr.Reproduced {
						rr = fr
					}
				} else {
					// last resort: random inputs satisfying the preconditions, postconditions evaluated by Go
					fr := v.fuzzSearch(o, u.root.top, u.fn, u.fc, filepath.Join(outDir, "replay"), seed)
					fuzzCache[u] = fr
					if fr.Reproduced {
						fr.Detail = "found by random contract testing on the real code: " + fr.Detail
						fuzzCache[u] = fr
						rr = fr
					}
				}
			}
		} else {
			rr = v.replayObligation(o, nil, nil, nil, filepath.Join(outDir, "replay"), o.Model)
		}
		report(o, rr)
	}
	for name, kf := range knownBy {
		if !knownSeen[name] {
			fmt.Printf("hvc: note: known finding %s (%s) did not fail on this run (stale entry)\n", name, kf.What)
		}
	}
	// evidence
	assumptions := v.assumptionList(units)
	level := "proof"
	ev := map[string]interface{}{
		"property_id": id,
		"tier":        *tier,
		"seed":        seed,
		"level":       level,
		"wall_s":      round3(time.Since(start).Seconds()),
		"violations":  nViol,
		"assumptions": assumptions,
		"coverage": map[string]interface{}{
			"obligations":     len(all) - nKnown,
			"discharged":      nDis,
			"known_findings":  nKnown,
			"known_finding_obligations": knownNames,
			"bounded":         0,
			"checker_cmd":     fmt.Sprintf("/verif/bin/hvc check %s --tier %s  (VCs from go/ssa of /repo's working tree; solvers z3-new 5.1.0, cvc5 1.0.3, z3 4.8.12 raced per obligation, %ds timeout)", id, *tier, timeout),
			"trusted_base":    []string{"hvc VC generator (/verif/engine)", "golang.org/x/tools/go/ssa v0.29.0 as the semantics of Go", "SMT solvers z3 5.1.0 / cvc5 1.0.3 / z3 4.8.12"},
			"functions":       funcNames,
			"functions_count": nFuncs,
			"by_solver":       bySolver,
			"solver_time_s":   round3(solverTime),
			"samples":         samples,
			"explanation":     "every obligation generated from the current source for the functions under contract was sent to the solver portfolio; 'discharged' counts unsat answers (and sat for vacuity guards); obligations that fail and are listed in known_findings.json are reported under known_finding_obligations (with a KNOWN-FINDING line) and are not part of 'obligations'",
		},
	}
	if nDis != len(all)-nKnown {
		ev["level"] = "other"
	}
	if os.Getenv("HVC_NO_EVIDENCE") == "" {
		// (runs against deliberately broken trees - seeds, mutants - set HVC_NO_EVIDENCE)
		_ = os.MkdirAll(filepath.Join(verifDir, "evidence"), 0o755)
		data, _ := json.MarshalIndent(ev, "", " ")
		_ = os.WriteFile(filepath.Join(verifDir, "evidence", id+".json"), append(data, '\n'), 0o644)
	}
	fmt.Printf("hvc: property %s: %d functions under contract, %d obligations, %d discharged, %d known findings, %d violations (%.1fs)\n",
		id, nFuncs, len(all), nDis, nKnown, nViol, time.Since(start).Seconds())
	for _, l := range violLines {
		fmt.Println(l)
	}
	if nViol > 0 {
		return 1
	}
	return 0
}

type boundedResult struct {
	rr ReplayResult
	ok bool
}

// boundedSearch re-generates the function's obligations with every loop unrolled K times
// (longer executions cut off). The resulting VCs are loop-free, so a `sat` answer is a
// concrete input; it is replayed on the real code. Used only to obtain failing inputs.
func (v *Verifier) boundedSearch(u *checkUnit, K int, outDir string, timeout int, cache map[*checkUnit]*boundedResult) (ReplayResult, bool) {
	if c, ok := cache[u]; ok {
		return c.rr, c.ok
	}
	res := &boundedResult{}
	cache[u] = res
	root, err := v.VerifyFunctionBounded(u.fn, u.fc, K)
	if err != nil || root == nil {
		return res.rr, false
	}
	var cand []*Obligation
	for _, o := range root.obls {
		switch o.Kind {
		case "vacuity", "frame", "unwind", "requires":
			continue
		}
		o.Name = o.Name + "~bounded"
		cand = append(cand, o)
	}
	noRetry = true
	bt := timeout
	if bt > 15 {
		bt = 15
	}
	dischargeAll(cand, filepath.Join(outDir, "smt-bounded"), bt, 16)
	noRetry = false
	for _, o := range cand {
		if os.Getenv("HVC_DEBUG") != "" {
			fmt.Printf("hvc: bounded %s: %s %s %.1fs\n", o.Name, o.Status, o.Solver, o.Time)
		}
		if o.Status != "sat" {
			continue
		}
		rr := v.replayObligation(o, root.top, u.fn, u.fc, filepath.Join(outDir, "replay"), o.Model)
		if rr.Reproduced {
			res.rr, res.ok = rr, true
			return rr, true
		}
	}
	return res.rr, false
}

func round3(f float64) float64 { return float64(int(f*1000+0.5)) / 1000 }

func shortKey(k string) string {
	return k[strings.LastIndex(k, "/")+1:]
}

func writeNote(outDir string, o *Obligation, text string) string {
	f := filepath.Join(outDir, "replay", sanitize(o.Name)+"_test.go")
	body := fmt.Sprintf("// hvc replay file\n// obligation: %s\n// kind: %s\n// %s\n// no executable replay: %s\n\npackage hvcreplay\n", o.Name, o.Kind, o.Desc, text)
	_ = os.WriteFile(f, []byte(body), 0o644)
	return f
}

// oblServes decides whether obligation o of a function with contract fc counts for property id.
func oblServes(o *Obligation, fc *FuncContract, id string) bool {
	if len(o.Props) > 0 {
		return hasProp(o.Props, id)
	}
	return hasProp(fc.Props, id)
}

func allClauses(fc *FuncContract) []*Clause {
	var out []*Clause
	out = append(out, fc.Requires...)
	out = append(out, fc.Ensures...)
	for _, l := range fc.Loops {
		out = append(out, l.Invariants...)
		if l.Decreases != nil {
			out = append(out, l.Decreases)
		}
	}
	return out
}

// assumptionList: every assumption the check relies on, scanned mechanically.
func (v *Verifier) assumptionList(units []*checkUnit) []string {
	set := map[string]bool{}
	add := func(s string) { set[s] = true }
	add("the hvc VC generator and its memory model (unverified; exercised by the must-fail corpus and replay)")
	add("go/ssa as the semantics of the Go subset; SMT solver soundness")
	add("pointer/slice parameters are non-nil unless declared nullable and valid; no slice or string has more than 2^40 elements")
	for _, u := range units {
		if u.root == nil {
			continue
		}
		for _, n := range u.root.notes {
			add(shortKey(u.key) + ": " + n)
		}
		if u.fc != nil {
			if u.fc.Mode == "int" || u.fc.Mode == "" {
				add(shortKey(u.key) + ": integers mathematical with per-operation no-overflow obligations (mode int)")
			} else {
				add(shortKey(u.key) + ": integers are fixed-width bit-vectors (mode bv)")
			}
			if u.fc.Wraps {
				add(shortKey(u.key) + ": arithmetic declared to wrap (no overflow obligations)")
			}
			for _, a := range u.fc.Abstract {
				add(shortKey(u.key) + ": abstracted: " + a)
			}
			if !u.fc.Terminates && !u.fc.Decoder {
				hasDec := true
				for _, l := range u.fc.Loops {
					if l.Decreases == nil {
						hasDec = false
					}
				}
				if !hasDec {
					add(shortKey(u.key) + ": termination not proved")
				}
			}
		}
	}
	for k, fc := range v.cs.Funcs {
		if fc.Trusted && v.usedTrusted[k] {
			add("trusted contract (assumed, not verified): " + k)
		}
		if fc.Inline && v.usedTrusted[k] {
			add("inlined from its real source: " + k)
		}
	}
	for k := range v.usedAuto {
		add("inlined from its real source: " + k)
	}
	var out []string
	for s := range set {
		out = append(out, s)
	}
	sort.Strings(out)
	return out
}
