package main

// Spec expression language: Go expression syntax plus ==>, <==>, forall/exists,
// old(), ite(), result. Parsed by a small Pratt parser.

import (
	"fmt"
	"strings"
	"unicode"
)

type SpecExpr interface{ String() string }

type (
	SNum   struct{ Text string }
	SIdent struct{ Name string }
	SBin   struct {
		Op   string
		L, R SpecExpr
	}
	SUn struct {
		Op string
		X  SpecExpr
	}
	SCall struct {
		Fun  string
		Args []SpecExpr
	}
	SIndex struct{ X, I SpecExpr }
	SSlice struct{ X, Lo, Hi SpecExpr }
	SField struct {
		X    SpecExpr
		Name string
	}
	SQuant struct {
		Forall bool
		Vars   []SQVar
		Lo, Hi SpecExpr // bounded form (single var) when non-nil
		Body   SpecExpr
	}
	SQVar struct{ Name, Type string }
	SChar struct{ Val byte }
	SStr  struct{ Val string } // string literal "..." (no escapes other than \\ and \")
)

func (e *SNum) String() string   { return e.Text }
func (e *SIdent) String() string { return e.Name }
func (e *SChar) String() string  { return fmt.Sprintf("%q", e.Val) }
func (e *SStr) String() string   { return fmt.Sprintf("%q", e.Val) }
func (e *SBin) String() string   { return "(" + e.L.String() + " " + e.Op + " " + e.R.String() + ")" }
func (e *SUn) String() string    { return e.Op + e.X.String() }
func (e *SCall) String() string {
	var as []string
	for _, a := range e.Args {
		as = append(as, a.String())
	}
	return e.Fun + "(" + strings.Join(as, ", ") + ")"
}
func (e *SIndex) String() string { return e.X.String() + "[" + e.I.String() + "]" }
func (e *SSlice) String() string {
	lo, hi := "", ""
	if e.Lo != nil {
		lo = e.Lo.String()
	}
	if e.Hi != nil {
		hi = e.Hi.String()
	}
	return e.X.String() + "[" + lo + ":" + hi + "]"
}
func (e *SField) String() string { return e.X.String() + "." + e.Name }
func (e *SQuant) String() string {
	q := "exists"
	if e.Forall {
		q = "forall"
	}
	if e.Lo != nil {
		return fmt.Sprintf("(%s %s in %s..%s :: %s)", q, e.Vars[0].Name, e.Lo, e.Hi, e.Body)
	}
	var vs []string
	for _, v := range e.Vars {
		vs = append(vs, v.Name+" "+v.Type)
	}
	return fmt.Sprintf("(%s %s :: %s)", q, strings.Join(vs, ", "), e.Body)
}

type tok struct {
	kind string // num ident op char eof
	text string
	pos  int
}

func lexSpec(s string) ([]tok, error) {
	var out []tok
	i := 0
	for i < len(s) {
		c := s[i]
		switch {
		case c == ' ' || c == '\t' || c == '\n' || c == '\r':
			i++
		case c >= '0' && c <= '9':
			j := i
			for j < len(s) && (isAlnum(s[j]) || s[j] == '_') {
				j++
			}
			out = append(out, tok{"num", strings.ReplaceAll(s[i:j], "_", ""), i})
			i = j
		case c == '\'':
			// char literal 'x' or '\n' '\t' '\\' '\''
			if i+2 < len(s) && s[i+1] != '\\' && s[i+2] == '\'' {
				out = append(out, tok{"char", string(s[i+1]), i})
				i += 3
			} else if i+3 < len(s) && s[i+1] == '\\' && s[i+3] == '\'' {
				var v byte
				switch s[i+2] {
				case 'n':
					v = '\n'
				case 't':
					v = '\t'
				case 'r':
					v = '\r'
				case '0':
					v = 0
				default:
					v = s[i+2]
				}
				out = append(out, tok{"char", string(v), i})
				i += 4
			} else {
				return nil, fmt.Errorf("bad char literal at %d in %q", i, s)
			}
		case c == '"':
			j := i + 1
			var sb strings.Builder
			for j < len(s) && s[j] != '"' {
				if s[j] == '\\' && j+1 < len(s) {
					j++
				}
				sb.WriteByte(s[j])
				j++
			}
			if j >= len(s) {
				return nil, fmt.Errorf("unterminated string literal at %d in %q", i, s)
			}
			out = append(out, tok{"str", sb.String(), i})
			i = j + 1
		case unicode.IsLetter(rune(c)) || c == '_' || c == '$':
			j := i
			for j < len(s) && (isAlnum(s[j]) || s[j] == '_' || s[j] == '$') {
				j++
			}
			out = append(out, tok{"ident", s[i:j], i})
			i = j
		default:
			ops := []string{"<==>", "==>", "&&", "||", "==", "!=", "<=", ">=", "<<", ">>", "&^", "::", "..",
				"+", "-", "*", "/", "%", "&", "|", "^", "<", ">", "!", "(", ")", "[", "]", ",", ".", ":", "{", "}"}
			found := false
			for _, o := range ops {
				if strings.HasPrefix(s[i:], o) {
					out = append(out, tok{"op", o, i})
					i += len(o)
					found = true
					break
				}
			}
			if !found {
				return nil, fmt.Errorf("unexpected character %q at %d in %q", c, i, s)
			}
		}
	}
	out = append(out, tok{"eof", "", len(s)})
	return out, nil
}

func isAlnum(c byte) bool {
	return c >= '0' && c <= '9' || c >= 'a' && c <= 'z' || c >= 'A' && c <= 'Z'
}

type specParser struct {
	toks []tok
	p    int
	src  string
}

func ParseSpec(src string) (e SpecExpr, err error) {
	toks, err := lexSpec(src)
	if err != nil {
		return nil, err
	}
	ps := &specParser{toks: toks, src: src}
	defer func() {
		if r := recover(); r != nil {
			if pe, ok := r.(parseErr); ok {
				err = fmt.Errorf("%s in %q", string(pe), src)
				return
			}
			panic(r)
		}
	}()
	e = ps.expr()
	if ps.peek().kind != "eof" {
		ps.fail("unexpected %q", ps.peek().text)
	}
	return e, nil
}

type parseErr string

func (ps *specParser) fail(f string, a ...interface{}) {
	panic(parseErr(fmt.Sprintf("spec parse error at %d: ", ps.peek().pos) + fmt.Sprintf(f, a...)))
}
func (ps *specParser) peek() tok { return ps.toks[ps.p] }
func (ps *specParser) next() tok { t := ps.toks[ps.p]; ps.p++; return t }
func (ps *specParser) isOp(o string) bool {
	t := ps.peek()
	return t.kind == "op" && t.text == o
}
func (ps *specParser) accept(o string) bool {
	if ps.isOp(o) {
		ps.p++
		return true
	}
	return false
}
func (ps *specParser) expect(o string) {
	if !ps.accept(o) {
		ps.fail("expected %q, got %q", o, ps.peek().text)
	}
}

func (ps *specParser) expr() SpecExpr {
	t := ps.peek()
	if t.kind == "ident" && (t.text == "forall" || t.text == "exists") {
		return ps.quant()
	}
	return ps.iff()
}

func (ps *specParser) quant() SpecExpr {
	q := &SQuant{Forall: ps.next().text == "forall"}
	for {
		n := ps.next()
		if n.kind != "ident" {
			ps.fail("expected bound variable")
		}
		v := SQVar{Name: n.text, Type: "int"}
		if (ps.peek().kind == "ident" && ps.peek().text != "in") || ps.isOp("[") || ps.isOp("*") {
			v.Type = ps.typeName()
		}
		q.Vars = append(q.Vars, v)
		if !ps.accept(",") {
			break
		}
	}
	if ps.peek().kind == "ident" && ps.peek().text == "in" {
		ps.next()
		if len(q.Vars) != 1 {
			ps.fail("bounded quantifier takes one variable")
		}
		q.Lo = ps.binary(4)
		ps.expect("..")
		q.Hi = ps.binary(4)
	}
	ps.expect("::")
	q.Body = ps.expr()
	return q
}

func (ps *specParser) typeName() string {
	s := ""
	for ps.isOp("[") || ps.isOp("*") {
		if ps.accept("*") {
			s += "*"
			continue
		}
		ps.next()
		ps.expect("]")
		s += "[]"
	}
	n := ps.next()
	if n.kind != "ident" {
		ps.fail("expected type name")
	}
	s += n.text
	if ps.isOp(".") {
		ps.next()
		s += "." + ps.next().text
	}
	return s
}

func (ps *specParser) iff() SpecExpr {
	l := ps.implies()
	for ps.accept("<==>") {
		r := ps.implies()
		l = &SBin{"<==>", l, r}
	}
	return l
}

func (ps *specParser) implies() SpecExpr {
	l := ps.binary(1)
	if ps.accept("==>") {
		// right associative; allow quantifier on the right
		var r SpecExpr
		t := ps.peek()
		if t.kind == "ident" && (t.text == "forall" || t.text == "exists") {
			r = ps.quant()
		} else {
			r = ps.implies()
		}
		return &SBin{"==>", l, r}
	}
	return l
}

var binPrec = map[string]int{
	"||": 1, "&&": 2,
	"==": 3, "!=": 3, "<": 3, "<=": 3, ">": 3, ">=": 3,
	"+": 4, "-": 4, "|": 4, "^": 4,
	"*": 5, "/": 5, "%": 5, "<<": 5, ">>": 5, "&": 5, "&^": 5,
}

func (ps *specParser) binary(minPrec int) SpecExpr {
	l := ps.unary()
	for {
		t := ps.peek()
		if t.kind != "op" {
			return l
		}
		p, ok := binPrec[t.text]
		if !ok || p < minPrec {
			return l
		}
		ps.next()
		var r SpecExpr
		nt := ps.peek()
		if (t.text == "&&" || t.text == "||") && nt.kind == "ident" && (nt.text == "forall" || nt.text == "exists") {
			r = ps.quant()
		} else {
			r = ps.binary(p + 1)
		}
		l = &SBin{t.text, l, r}
	}
}

func (ps *specParser) unary() SpecExpr {
	if ps.accept("*") {
		return &SUn{"*", ps.unary()}
	}
	if ps.accept("!") {
		return &SUn{"!", ps.unary()}
	}
	if ps.accept("-") {
		return &SUn{"-", ps.unary()}
	}
	if ps.accept("^") {
		return &SUn{"^", ps.unary()}
	}
	return ps.postfix()
}

func (ps *specParser) postfix() SpecExpr {
	x := ps.primary()
	for {
		switch {
		case ps.accept("."):
			n := ps.next()
			if n.kind != "ident" && n.kind != "num" {
				ps.fail("expected field name")
			}
			x = &SField{x, n.text}
		case ps.accept("["):
			var lo, hi SpecExpr
			if ps.accept(":") {
				if !ps.isOp("]") {
					hi = ps.expr()
				}
				ps.expect("]")
				x = &SSlice{x, nil, hi}
				continue
			}
			lo = ps.expr()
			if ps.accept(":") {
				if !ps.isOp("]") {
					hi = ps.expr()
				}
				ps.expect("]")
				x = &SSlice{x, lo, hi}
				continue
			}
			ps.expect("]")
			x = &SIndex{x, lo}
		case ps.isOp("("):
			id, ok := x.(*SIdent)
			fname := ""
			if ok {
				fname = id.Name
			} else if f, ok2 := x.(*SField); ok2 {
				if b, ok3 := f.X.(*SIdent); ok3 {
					fname = b.Name + "." + f.Name
				}
			}
			if fname == "" {
				ps.fail("call of non-identifier")
			}
			ps.next()
			var args []SpecExpr
			for !ps.isOp(")") {
				args = append(args, ps.expr())
				if !ps.accept(",") {
					break
				}
			}
			ps.expect(")")
			x = &SCall{fname, args}
		default:
			return x
		}
	}
}

func (ps *specParser) primary() SpecExpr {
	t := ps.next()
	switch t.kind {
	case "num":
		return &SNum{t.text}
	case "char":
		return &SChar{t.text[0]}
	case "str":
		return &SStr{t.text}
	case "ident":
		if t.text == "forall" || t.text == "exists" {
			ps.p--
			return ps.quant()
		}
		return &SIdent{t.text}
	case "op":
		if t.text == "(" {
			e := ps.expr()
			ps.expect(")")
			return e
		}
		if t.text == "[" { // []byte(x) style conversion not supported; slice type idents only in quantifiers
			ps.fail("unexpected [")
		}
	}
	ps.fail("unexpected %q", t.text)
	return nil
}
