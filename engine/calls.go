package main

// Calls: builtins, inlining, contract application; frames and loop havoc.

import (
	"fmt"
	"go/types"
	"strings"

	"golang.org/x/tools/go/ssa"
)

func funcKey(fn *ssa.Function) (pkg, name string) {
	name = fn.Name()
	if fn.Parent() != nil {
		// closure: Outer$1 ; go/ssa names anonymous functions "outer$1"
		_, pn := funcKey(fn.Parent())
		k := strings.LastIndex(name, "$")
		if k >= 0 {
			name = pn + name[k:]
		}
		p, _ := funcKey(fn.Parent())
		return p, name
	}
	if recv := fn.Signature.Recv(); recv != nil {
		rt := recv.Type()
		if p, ok := rt.(*types.Pointer); ok {
			rt = p.Elem()
		}
		if n, ok := rt.(*types.Named); ok {
			name = n.Obj().Name() + "." + name
			if n.Obj().Pkg() != nil {
				pkg = n.Obj().Pkg().Path()
			}
		}
	}
	if pkg == "" && fn.Pkg != nil {
		pkg = fn.Pkg.Pkg.Path()
	}
	if pkg == "" && fn.Object() != nil && fn.Object().Pkg() != nil {
		pkg = fn.Object().Pkg().Path()
	}
	return pkg, name
}

func (v *Verifier) contractFor(fn *ssa.Function) *FuncContract {
	pkg, name := funcKey(fn)
	return v.cs.Funcs[pkg+"."+name]
}

// small standard-library leaf functions that are inlined from their real source
var autoInline = map[string]bool{
	"encoding/binary.littleEndian.Uint16":    true,
	"encoding/binary.littleEndian.Uint32":    true,
	"encoding/binary.littleEndian.Uint64":    true,
	"encoding/binary.littleEndian.PutUint16": true,
	"encoding/binary.littleEndian.PutUint32": true,
	"encoding/binary.littleEndian.PutUint64": true,
	"encoding/binary.bigEndian.Uint16":       true,
	"encoding/binary.bigEndian.Uint32":       true,
	"encoding/binary.bigEndian.Uint64":       true,
}

func (fx *FnCtx) execCall(st *State, pc *Term, site ssa.Instruction, call *ssa.CallCommon) Value {
	tc := fx.tc
	var rt types.Type
	if v, ok := site.(ssa.Value); ok {
		rt = v.Type()
	} else {
		rt = call.Signature().Results()
	}
	if call.IsInvoke() {
		return fx.invokeCall(st, pc, site, call, rt)
	}
	switch f := call.Value.(type) {
	case *ssa.Builtin:
		return fx.builtinCall(st, pc, f, call, rt)
	case *ssa.Function:
		if pkg, name := funcKey(f); pkg == "encoding/binary" && name == "Read" {
			return fx.binaryRead(st, pc, call, rt)
		} else if pkg == "sort" && (name == "Sort" || name == "IsSorted" || name == "Stable") {
			return fx.sortModel(st, pc, name, call, rt)
		} else if pkg == "sort" && name == "Search" {
			return fx.sortSearch(st, pc, call, rt)
		}
		var args []Value
		for _, a := range call.Args {
			args = append(args, fx.val(a))
		}
		return fx.callFunction(st, pc, f, nil, args, rt)
	default:
		fv := fx.val(call.Value)
		if fv.Fn == nil {
			return fx.unknownFuncCall(st, pc, call, rt)
		}
		var args []Value
		for _, a := range call.Args {
			args = append(args, fx.val(a))
		}
		return fx.callFunction(st, pc, fv.Fn.Fn, fv.Fn.Bindings, args, rt)
	}
	_ = tc
	return Value{}
}

// unknownFuncCall: a call through a function value that cannot be resolved (a field or parameter of
// function type). Nothing is known about what it does, so the call must be unreachable under the
// contract: an obligation "the path to this call is infeasible" is generated (it fails when the
// contract allows the call), and the path ends here.
func (fx *FnCtx) unknownFuncCall(st *State, pc *Term, call *ssa.CallCommon, rt types.Type) Value {
	fx.safety("dyncall", pc, False, "call through a function value that is not known statically is unreachable under the contract")
	v, facts := fx.tc.FreshValue(rt, "dyncall")
	for _, f := range facts {
		fx.assume(f)
	}
	return v
}

func (fx *FnCtx) callFunction(st *State, pc *Term, f *ssa.Function, bindings []Value, args []Value, rt types.Type) Value {
	fc := fx.V.contractFor(f)
	pkg, name := funcKey(f)
	key := pkg + "." + name
	if fc != nil {
		fx.V.usedTrusted[key] = true
	} else if autoInline[key] {
		fx.V.usedAuto[key] = true
	}
	if fc != nil && !fc.Inline {
		res := fx.contractCall(st, pc, fc, f, args, rt)
		if key == "io.ReadFull" && len(args) == 2 && len(res.L) >= 2 {
			fx.recordSliceRead(st, pc, args[1], types.Typ[types.Uint8], res.L[1])
		}
		return res
	}
	if (fc != nil && fc.Inline) || autoInline[key] || (bindings != nil && fc == nil) {
		if f.Blocks == nil {
			fx.fail("cannot inline %s: no body", key)
		}
		return fx.inlineCall(st, pc, f, fc, bindings, args, rt)
	}
	fx.fail("call to %s which has no contract (add a contract, 'inline', or a trusted contract)", key)
	return Value{}
}

func (fx *FnCtx) inlineCall(st *State, pc *Term, f *ssa.Function, fc *FuncContract, bindings []Value, args []Value, rt types.Type) Value {
	if fx.depth > 6 {
		fx.fail("inlining too deep at %s", f.Name())
	}
	sub := &FnCtx{V: fx.V, tc: fx.tc, root: fx.root, fn: f, fc: fc, prefix: fx.prefix + ">" + f.Name(),
		vals: map[ssa.Value]Value{}, params: map[string]Value{}, depth: fx.depth + 1, bindings: bindings,
		regions: map[*ssa.Alloc]*Region{}}
	// a closure's contract loops are taken from its own contract if present
	if sub.fc == nil {
		sub.fc = fx.V.contractFor(f)
	}
	rets := sub.runBody(st, pc, args)
	savePos := fx.curPos
	defer func() { fx.curPos = savePos }()
	if len(rets) == 0 {
		// callee never returns (always panics): path is dead afterwards
		fx.assume(Not(pc))
		v, _ := fx.tc.FreshValue(rt, "noreturn")
		return v
	}
	// merge return states into st
	var edges []*Edge
	for i := range rets {
		edges = append(edges, &Edge{st: rets[i].st, reach: rets[i].reach})
	}
	merged := fx.mergeStates(edges)
	*st = *merged
	// paths of the caller continue only where the callee returned
	fx.assume(Implies(pc, orReach(edges)))
	// merged result
	nres := f.Signature.Results().Len()
	if nres == 0 {
		return Value{T: rt}
	}
	var out Value
	for k := 0; k < nres; k++ {
		var cur Value
		for i := len(rets) - 1; i >= 0; i-- {
			v := fx.storableOrPtr(rets[i].vals[k])
			if i == len(rets)-1 {
				cur = v
				continue
			}
			m, err := iteValue(rets[i].reach, v, cur)
			if err != nil {
				fx.fail("merging results of inlined %s: %v", f.Name(), err)
			}
			cur = m
		}
		if nres == 1 {
			cur.T = rt
			return cur
		}
		if cur.P != nil || cur.Fn != nil {
			cur = fx.storable(cur)
		}
		out.L = append(out.L, cur.L...)
	}
	out.T = rt
	return out
}

func (fx *FnCtx) storableOrPtr(v Value) Value { return v }

// runBody executes the body of fx.fn with the given arguments and returns the return points.
func (fx *FnCtx) runBody(st *State, pc *Term, args []Value) []retInfo {
	f := fx.fn
	if len(args) != len(f.Params) {
		fx.fail("argument count mismatch calling %s", f.Name())
	}
	for i, p := range f.Params {
		fx.vals[p] = args[i]
		fx.params[p.Name()] = args[i]
	}
	fx.entry = st.Clone()
	fx.loops = buildLoops(f)
	fx.resultNames = map[string]int{}
	res := f.Signature.Results()
	for i := 0; i < res.Len(); i++ {
		if n := res.At(i).Name(); n != "" && n != "_" {
			fx.resultNames[n] = i
		}
	}
	// loop ordinals of contract must exist
	if fx.fc != nil {
		for ord := range fx.fc.Loops {
			if ord >= len(fx.loops.loops) {
				fx.fail("contract mentions loop %d but the function has %d loops", ord, len(fx.loops.loops))
			}
		}
	}
	var rets []retInfo
	start := &Edge{to: f.Blocks[0], st: st, reach: pc}
	r := fx.runRegion(nil, f.Blocks[0], []*Edge{start}, &rets)
	if len(r.exits) != 0 || len(r.backs) != 0 {
		fx.fail("internal: dangling edges after function body")
	}
	return rets
}

func (fx *FnCtx) runDefers(st *State, pc *Term) {
	// LIFO; only deferred calls of supported kinds
	for i := len(fx.deferred) - 1; i >= 0; i-- {
		d := fx.deferred[i]
		fx.execCall(st, pc, d, &d.Call)
	}
}

// ---------------------------------------------------------------------------
// builtins

func (fx *FnCtx) builtinCall(st *State, pc *Term, b *ssa.Builtin, call *ssa.CallCommon, rt types.Type) Value {
	tc := fx.tc
	arg := func(i int) Value { return fx.val(call.Args[i]) }
	switch b.Name() {
	case "len":
		x := arg(0)
		switch u := call.Args[0].Type().Underlying().(type) {
		case *types.Slice, *types.Basic:
			return Value{T: rt, L: []*Term{x.L[2]}}
		case *types.Array:
			return Value{T: rt, L: []*Term{tc.IdxNum(u.Len())}}
		case *types.Pointer:
			return Value{T: rt, L: []*Term{tc.IdxNum(u.Elem().Underlying().(*types.Array).Len())}}
		case *types.Map:
			return Value{T: rt, L: []*Term{fx.mapLen(st, x)}}
		}
		fx.fail("len of %v", call.Args[0].Type())
	case "cap":
		x := arg(0)
		switch u := call.Args[0].Type().Underlying().(type) {
		case *types.Slice:
			return Value{T: rt, L: []*Term{x.L[3]}}
		case *types.Array:
			return Value{T: rt, L: []*Term{tc.IdxNum(u.Len())}}
		}
		fx.fail("cap of %v", call.Args[0].Type())
	case "append":
		return fx.appendCall(st, pc, arg(0), arg(1), call.Args[1].Type(), rt)
	case "copy":
		d, s := arg(0), arg(1)
		n := Ite(tc.IdxLt(d.L[2], s.L[2]), d.L[2], s.L[2])
		el := elemTypeOf(call.Args[0].Type())
		fx.frameCheckRange(st, pc, el, d.L[0], d.L[1], tc.IdxAdd(d.L[1], n))
		fx.copyElems(st, pc, el, d.L[0], d.L[1], s.L[0], s.L[1], n)
		return Value{T: rt, L: []*Term{n}}
	case "delete":
		fx.mapDelete(st, pc, arg(0), arg(1), call.Args[0].Type())
		return Value{T: rt}
	case "min", "max":
		x, y := arg(0), arg(1)
		lt := fx.binop(pc, tokLSS, x, y, types.Typ[types.Bool], call.Args[0].Type(), call.Args[1].Type()).L[0]
		if b.Name() == "min" {
			return Value{T: rt, L: []*Term{Ite(lt, x.L[0], y.L[0])}}
		}
		return Value{T: rt, L: []*Term{Ite(lt, y.L[0], x.L[0])}}
	case "print", "println":
		return Value{T: rt}
	case "ssa:wrapnilchk":
		return arg(0)
	}
	fx.fail("unsupported builtin %s", b.Name())
	return Value{}
}

func (fx *FnCtx) appendCall(st *State, pc *Term, s, t Value, tt types.Type, rt types.Type) Value {
	tc := fx.tc
	el := elemTypeOf(rt)
	var tid, toff, tlen *Term
	if isStringType(tt) {
		tid, toff, tlen = t.L[0], t.L[1], t.L[2]
	} else {
		tid, toff, tlen = t.L[0], t.L[1], t.L[2]
	}
	sid, soff, slen, scap := s.L[0], s.L[1], s.L[2], s.L[3]
	n := tc.IdxAdd(slen, tlen)
	if tc.Mode == ModeInt {
		// lengths are bounded by the address space; the sum cannot overflow int
	}
	fits := tc.IdxLe(n, scap)
	// in-place branch
	stIn := st.Clone()
	if fits != False {
		fx.frameCheckRange(stIn, And(pc, fits), el, sid, tc.IdxAdd(soff, slen), tc.IdxAdd(soff, n))
		fx.copyElems(stIn, And(pc, fits), el, sid, tc.IdxAdd(soff, slen), tid, toff, tlen)
	}
	// growth branch
	stGr := st.Clone()
	var nid, ncap *Term
	if fits != True {
		nid = fx.newRef(stGr)
		ncap = Fresh("appcap", tc.IdxSort())
		fx.assume(Implies(pc, tc.IdxLe(n, ncap)))
		// contents: old s then t
		pre := st
		leaves := tc.Layout(el).Leaves
		if fx.root.boundedK > 0 {
			// bounded instance search: explicit guarded copies keep the VC quantifier-free
			g := And(pc, Not(fits))
			fx.copyElems(stGr, g, el, nid, tc.IdxNum(0), sid, soff, slen)
			fx.copyElems(stGr, g, el, nid, slen, tid, toff, tlen)
			leaves = nil
		}
		for _, lf := range leaves {
			name := arrHeapName(el, lf)
			h := fx.Heap(pre, name, lf)
			nw := Fresh("grow_"+name, ArraySort(tc.IdxSort(), lf.Sort))
			j := BoundVar("j", tc.IdxSort())
			a1 := Forall([]*Term{j}, Implies(And(tc.IdxLe(tc.IdxNum(0), j), tc.IdxLt(j, slen)),
				Eq(Select(nw, j), Select(Select(h, sid), tc.IdxAdd(soff, j)))))
			fx.assume(Implies(And(pc, Not(fits)), a1))
			if tlen.IsNum() && tlen.Val.IsInt64() && tlen.Val.Int64() <= 16 {
				for k := int64(0); k < tlen.Val.Int64(); k++ {
					kk := tc.IdxNum(k)
					fx.assume(Implies(And(pc, Not(fits)), Eq(Select(nw, tc.IdxAdd(slen, kk)), Select(Select(h, tid), tc.IdxAdd(toff, kk)))))
				}
			} else {
				// absolute index i, triggered by reads nw[i]
				i2 := BoundVar("i", tc.IdxSort())
				ni := Select(nw, i2)
				a2 := Forall([]*Term{i2}, Implies(And(tc.IdxLe(slen, i2), tc.IdxLt(i2, n)),
					Eq(ni, Select(Select(h, tid), tc.IdxAdd(toff, tc.IdxSub(i2, slen))))), []*Term{ni})
				fx.assume(Implies(And(pc, Not(fits)), a2))
			}
			stGr.Heaps[name] = Store(h, nid, nw)
		}
	}
	switch {
	case fits == True:
		*st = *stIn
		return fx.mkSlice(rt, sid, soff, n, scap)
	case fits == False:
		*st = *stGr
		return fx.mkSlice(rt, nid, tc.IdxNum(0), n, ncap)
	}
	merged := fx.mergeStates([]*Edge{{st: stGr, reach: Not(fits)}, {st: stIn, reach: fits}})
	*st = *merged
	return fx.mkSlice(rt, Ite(fits, sid, nid), Ite(fits, soff, tc.IdxNum(0)), n, Ite(fits, scap, ncap))
}

// ---------------------------------------------------------------------------
// frames

func (fx *FnCtx) frameCheck(st *State, pc *Term, p *PtrInfo) {
	tc := fx.tc
	switch p.Kind {
	case PLocal:
		return
	case PGlobal:
		fx.safety("frame", pc, False, "write to package-level variable "+p.Global.Name())
	case PObj:
		ok := fx.freshRef(p.Ref)
		n := len(tc.Layout(p.Typ).Leaves)
		for _, it := range fx.root.frame {
			if it.Kind != PObj {
				continue
			}
			// the embedded objects of a frame item that covers its whole object are covered too
			if it.N == 0 {
				if stt, isS := it.Root.Underlying().(*types.Struct); isS {
					for i := 0; i < stt.NumFields(); i++ {
						if embeddedFields[stt.Field(i)] && types.Identical(stt.Field(i).Type(), p.Root) {
							ok = Or(ok, Eq(p.Ref, tc.embRef(it.Ref, i)))
						}
					}
				}
			}
			if !types.Identical(it.Root, p.Root) {
				continue
			}
			if it.N != 0 && !(it.Off <= p.Off && p.Off+n <= it.Off+it.N) {
				continue
			}
			if it.Ref == nil {
				ok = True // objects(T): any object of this type
				continue
			}
			ok = Or(ok, Eq(p.Ref, it.Ref))
		}
		fx.safety("frame", pc, ok, "write to object field within the modifies frame")
	case PElem:
		if p.Idx == nil {
			ok := tc.IdxLe(fx.root.entryNAlloc, p.Arr)
			for _, it := range fx.root.frame {
				if it.Kind == PElem && types.Identical(it.Root, p.Root) && it.Lo == nil {
					if it.Arr == nil {
						ok = True
						continue
					}
					ok = Or(ok, Eq(p.Arr, it.Arr))
				}
			}
			fx.safety("frame", pc, ok, "write to whole array within the modifies frame")
			return
		}
		fx.frameCheckRange(st, pc, p.Root, p.Arr, p.Idx, tc.IdxAdd(p.Idx, tc.IdxNum(1)))
	}
}

// freshRef: the reference was allocated by the function under verification (or is an embedded
// object of such an object), so writing through it needs no frame.
func (fx *FnCtx) freshRef(ref *Term) *Term {
	tc := fx.tc
	n0 := fx.root.entryNAlloc
	if !tc.relaxRefs {
		return tc.IdxLe(n0, ref)
	}
	base := tc.IdxNum(embBase)
	var parent *Term
	if tc.Mode == ModeBV {
		parent = bvBin("bvudiv", bvBin("bvsub", ref, base), BVNum(64, 64))
	} else {
		parent = IDivE(ISub(ref, base), IntNum(64))
	}
	return Or(And(tc.IdxLe(n0, ref), tc.IdxLt(ref, base)), And(tc.IdxLe(base, ref), tc.IdxLe(n0, parent)))
}

func (fx *FnCtx) frameCheckRange(st *State, pc *Term, el types.Type, arr, lo, hi *Term) {
	tc := fx.tc
	ok := Or(tc.IdxLe(fx.root.entryNAlloc, arr), tc.IdxLe(hi, lo))
	for _, it := range fx.root.frame {
		if it.Kind != PElem || !types.Identical(it.Root, el) {
			continue
		}
		if it.Arr == nil {
			ok = True
		} else if it.Lo == nil {
			ok = Or(ok, Eq(arr, it.Arr))
		} else {
			ok = Or(ok, And(Eq(arr, it.Arr), tc.IdxLe(it.Lo, lo), tc.IdxLe(hi, it.Hi)))
		}
	}
	fx.safety("frame", pc, ok, "write to slice elements within the modifies frame")
}

// evalFrame turns modifies expressions into frame items, evaluated in env.
func (fx *FnCtx) evalFrame(env *Env, exprs []SpecExpr, srcs []string) []FrameItem {
	tc := fx.tc
	var out []FrameItem
	for i, e := range exprs {
		src := ""
		if i < len(srcs) {
			src = srcs[i]
		}
		switch x := e.(type) {
		case *SSlice:
			sv := fx.evalSpec(env, x.X)
			if _, ok := sv.V.T.Underlying().(*types.Slice); !ok {
				fx.fail("modifies %s: not a slice", src)
			}
			id, off, ln := sv.V.L[0], sv.V.L[1], sv.V.L[2]
			lo := tc.IdxNum(0)
			hi := ln
			if x.Lo != nil {
				lo = fx.evalIdx(env, x.Lo)
			}
			if x.Hi != nil {
				hi = fx.evalIdx(env, x.Hi)
			}
			out = append(out, FrameItem{Kind: PElem, Root: elemTypeOf(sv.V.T), Arr: id, Lo: tc.IdxAdd(off, lo), Hi: tc.IdxAdd(off, hi), Src: src})
		case *SUn:
			if x.Op != "*" {
				fx.fail("modifies %s: unsupported form", src)
			}
		case *SCall:
			// all(x): every field of the object x points to
			if x.Fun == "objects" && len(x.Args) == 1 {
				// objects(T): any object of struct type T (a whole linked structure)
				var tname string
				switch a := x.Args[0].(type) {
				case *SIdent:
					tname = a.Name
				case *SField:
					if id, ok := a.X.(*SIdent); ok {
						tname = id.Name + "." + a.Name
					}
				}
				if tname == "" {
					fx.fail("modifies %s: objects(TypeName)", src)
				}
				t := fx.resolveType(tname, env.pkg)
				if t == nil {
					fx.fail("modifies %s: unknown type", src)
				}
				out = append(out, FrameItem{Kind: PObj, Root: t, Ref: nil, Src: src})
				continue
			}
			if x.Fun == "arrays" && len(x.Args) == 1 {
				// arrays(T): the elements of any array (slice backing store) with element type T
				var t types.Type
				if tn := specTypeName(x.Args[0]); tn != "" {
					t = fx.resolveType(tn, env.pkg)
				}
				if t == nil {
					fx.fail("modifies %s: arrays(TypeName)", src)
				}
				out = append(out, FrameItem{Kind: PElem, Root: t, Arr: nil, Src: src})
				continue
			}
			if x.Fun == "all" && len(x.Args) == 1 {
				sv := fx.evalSpec(env, x.Args[0])
				p := fx.asPtr(sv.V)
				if p.Kind != PObj {
					fx.fail("modifies %s: not an object pointer", src)
				}
				it := FrameItem{Kind: PObj, Root: p.Root, Ref: p.Ref, Src: src}
				if p.Off != 0 || !types.Identical(p.Root, p.Typ) {
					// a pointer to a field of an object: only that field's part of the object
					it.Off, it.N = p.Off, len(tc.Layout(p.Typ).Leaves)
				}
				out = append(out, it)
				continue
			}
			if x.Fun == "lockstate" && len(x.Args) == 1 {
				sv := fx.evalSpec(env, x.Args[0])
				p := fx.asPtr(sv.V)
				if p.Kind != PObj || p.Off != 0 {
					fx.fail("modifies %s: not a pointer to a mutex object", src)
				}
				fx.ghostHeap(env.st, "G:lock")
				out = append(out, FrameItem{Kind: PGhost, Ref: p.Ref, Src: "G:lock"})
				continue
			}
			if fx.V.cs.GhostFields[x.Fun] && len(x.Args) == 1 {
				sv := fx.evalSpec(env, x.Args[0])
				fx.ghostHeap(env.st, "G:"+x.Fun)
				out = append(out, FrameItem{Kind: PGhost, Ref: fx.ghostOwner(x, sv.V), Src: "G:" + x.Fun})
				continue
			}
			if x.Fun == "mapof" && len(x.Args) == 1 {
				// mapof(m): the contents of map m
				sv := fx.evalSpec(env, x.Args[0])
				if _, ok := sv.V.T.Underlying().(*types.Map); !ok {
					fx.fail("modifies %s: not a map", src)
				}
				out = append(out, FrameItem{Kind: PMap, Root: sv.V.T.Underlying(), Ref: sv.V.L[0], Src: src})
				continue
			}
			if x.Fun == "object" && len(x.Args) == 1 {
				// object(i): every field of the object an interface value holds (its dynamic type must be
				// statically known at the call site and be a pointer to a struct); nothing for a nil interface
				sv := fx.evalSpec(env, x.Args[0])
				if _, ok := sv.V.T.Underlying().(*types.Interface); !ok || len(sv.V.L) != 2 {
					fx.fail("modifies %s: not an interface value", src)
				}
				tag := sv.V.L[0]
				if !tag.IsNum() {
					// dynamic type unknown: it may be any struct type of the package under verification that
					// implements the interface; objects of types outside it are not part of the modelled state
					iface, _ := sv.V.T.Underlying().(*types.Interface)
					if tp := fx.pkgTypes(); tp != nil && iface != nil {
						sc := tp.Scope()
						for _, nm := range sc.Names() {
							tn, ok := sc.Lookup(nm).(*types.TypeName)
							if !ok || tn.IsAlias() {
								continue
							}
							if _, isStruct := tn.Type().Underlying().(*types.Struct); !isStruct {
								continue
							}
							if types.Implements(types.NewPointer(tn.Type()), iface) {
								out = append(out, FrameItem{Kind: PObj, Root: tn.Type(), Ref: sv.V.L[1], Src: src})
							}
						}
					}
					fx.V.usedTrusted["reader/writer objects of types outside the package are not modelled state"] = true
					continue
				}
				if tag.Val.Sign() == 0 {
					continue
				}
				dt := fx.V.tagTypes[int(tag.Val.Int64())]
				pt, ok := dt.Underlying().(*types.Pointer)
				if !ok {
					continue // a value type boxed in the interface: the callee gets a copy
				}
				out = append(out, FrameItem{Kind: PObj, Root: pt.Elem(), Ref: sv.V.L[1], Src: src})
				continue
			}
			if x.Fun == "backing" && len(x.Args) == 1 {
				sv := fx.evalSpec(env, x.Args[0])
				out = append(out, FrameItem{Kind: PElem, Root: elemTypeOf(sv.V.T), Arr: sv.V.L[0], Src: src})
				continue
			}
			fx.fail("modifies %s: unsupported form", src)
		case *SField:
			if oc, ok := x.X.(*SCall); ok && oc.Fun == "object" && len(oc.Args) == 1 {
				// object(i).f : field f of the object an interface value holds, if its (statically known)
				// dynamic type has such a field; the whole object otherwise
				items := fx.evalFrame(env, []SpecExpr{oc}, []string{src})
				for _, it := range items {
					if stt, ok := it.Root.Underlying().(*types.Struct); ok {
						for k := 0; k < stt.NumFields(); k++ {
							if stt.Field(k).Name() == x.Name {
								off, n := tc.fieldRange(stt, k)
								it.Off, it.N = off, n
							}
						}
					}
					out = append(out, it)
				}
				continue
			}
			// p.f : one field of the object p
			sv := fx.evalSpec(env, x.X)
			p := fx.asPtr(sv.V)
			if p.Kind != PObj {
				fx.fail("modifies %s: not an object pointer", src)
			}
			stt, ok := p.Typ.Underlying().(*types.Struct)
			if !ok {
				fx.fail("modifies %s: not a struct", src)
			}
			found := false
			for k := 0; k < stt.NumFields(); k++ {
				if stt.Field(k).Name() == x.Name {
					off, n := tc.fieldRange(stt, k)
					out = append(out, FrameItem{Kind: PObj, Root: p.Root, Ref: p.Ref, Off: p.Off + off, N: n, Src: src})
					found = true
				}
			}
			if !found {
				fx.fail("modifies %s: no such field", src)
			}
		default:
			fx.fail("modifies %s: unsupported form", src)
		}
	}
	return out
}

// havocFrame: havoc exactly the given frame items in st. Used at contract calls.
func (fx *FnCtx) havocFrame(st *State, pc *Term, items []FrameItem, base string) {
	tc := fx.tc
	for _, it := range items {
		if it.Kind == PGhost {
			h := fx.ghostHeap(st, it.Src)
			st.Heaps[it.Src] = Store(h, it.Ref, Fresh(base+"_lock", tc.IdxSort()))
			continue
		}
		if it.Kind == PMap {
			mh := fx.mapInfo(it.Root)
			for _, n := range append([]string{mh.dom, mh.ln}, mh.vals...) {
				hi := fx.V.heapLeaves[n]
				h := fx.mapHeap(st, n)
				nv := Fresh(base+"_"+n, hi.Sort.Elem)
				if n == mh.ln {
					fx.assume(tc.Ge0(nv))
				}
				st.Heaps[n] = Store(h, it.Ref, nv)
			}
			continue
		}
		if it.Kind == PObj && it.Ref == nil {
			// objects(T): every object of the type may have changed
			for _, lf := range tc.Layout(it.Root).Leaves {
				name := objHeapName(it.Root, lf)
				fx.Heap(st, name, lf)
				nw := Fresh(base+"_"+name, tc.heapSort(name, lf))
				fx.noteHeapSymbol(nw, name, lf)
				st.Heaps[name] = nw
			}
			continue
		}
		if it.Kind == PElem && it.Arr == nil {
			// arrays(T): every array of this element type may have changed
			for _, lf := range tc.Layout(it.Root).Leaves {
				name := arrHeapName(it.Root, lf)
				fx.Heap(st, name, lf)
				nw := Fresh(base+"_"+name, tc.heapSort(name, lf))
				fx.noteHeapSymbol(nw, name, lf)
				st.Heaps[name] = nw
			}
			continue
		}
		lay := tc.Layout(it.Root)
		leaves := lay.Leaves
		if it.Kind == PObj && it.N != 0 {
			leaves = lay.Leaves[it.Off : it.Off+it.N]
		}
		for _, lf := range leaves {
			switch it.Kind {
			case PObj:
				name := objHeapName(it.Root, lf)
				h := fx.Heap(st, name, lf)
				nv := Fresh(base+"_"+name, lf.Sort)
				for _, f := range tc.leafFacts(lf, nv) {
					fx.assume(f)
				}
				if (lf.Kind == "id" || lf.Kind == "ref") && lf.Sort.Kind != SArray {
					// constrained after the call when NAlloc is updated
					fx.root.pendingRefs = append(fx.root.pendingRefs, nv)
				}
				st.Heaps[name] = Store(h, it.Ref, nv)
			case PElem:
				name := arrHeapName(it.Root, lf)
				h := fx.Heap(st, name, lf)
				old := Select(h, it.Arr)
				nw := Fresh(base+"_"+name, old.Sort)
				fx.noteInnerArray(nw, lf)
				if it.Lo != nil {
					i := BoundVar("i", tc.IdxSort())
					outside := Or(tc.IdxLt(i, it.Lo), tc.IdxLe(it.Hi, i))
					fx.assume(Implies(pc, Forall([]*Term{i}, Implies(outside, Eq(Select(nw, i), Select(old, i))))))
				}
				st.Heaps[name] = Store(h, it.Arr, nw)
			}
		}
	}
}

// noteInnerArray records range axioms for a fresh inner array of a narrow int leaf.
func (fx *FnCtx) noteInnerArray(a *Term, lf Leaf) {
	tc := fx.tc
	if lf.Kind == "int" && tc.Mode == ModeInt {
		w, signed, _ := intInfo(lf.T)
		if w < 64 || !signed {
			i := BoundVar("q", tc.IdxSort())
			s := Select(a, i)
			if s.Sort.Kind != SArray {
				fx.assume(Forall([]*Term{i}, tc.inRange(s, lf.T), []*Term{s}))
			}
		}
	}
	if lf.Kind == "len" || lf.Kind == "cap" || lf.Kind == "off" || lf.Kind == "id" || lf.Kind == "ref" || lf.Kind == "tag" {
		i := BoundVar("q", tc.IdxSort())
		s := Select(a, i)
		if s.Sort.Kind != SArray {
			fx.assume(Forall([]*Term{i}, tc.Ge0(s), []*Term{s}))
		}
	}
}

// ---------------------------------------------------------------------------
// loop havoc

type modSet struct {
	heaps   map[string]heapInfo
	regions map[*ssa.Alloc]bool
	globals map[*ssa.Global]bool
	alloc   bool
	all     bool
	why     string
}

func (fx *FnCtx) loopModSet(li *loopInfo) *modSet {
	ms := &modSet{heaps: map[string]heapInfo{}, regions: map[*ssa.Alloc]bool{}, globals: map[*ssa.Global]bool{}}
	for b := range li.blocks {
		for _, ins := range b.Instrs {
			fx.instrMods(ins, ms, 0)
		}
	}
	return ms
}

func (fx *FnCtx) addArrHeaps(ms *modSet, el types.Type) {
	for _, lf := range fx.tc.Layout(el).Leaves {
		name := arrHeapName(el, lf)
		ms.heaps[name] = heapInfo{lf, fx.tc.heapSort(name, lf)}
	}
}

func (fx *FnCtx) addMapHeaps(ms *modSet, mt types.Type) {
	mh := fx.mapInfo(mt)
	for _, n := range append([]string{mh.dom, mh.ln}, mh.vals...) {
		ms.heaps[n] = fx.V.heapLeaves[n]
	}
}

func (fx *FnCtx) addObjHeaps(ms *modSet, root types.Type, off, n int) {
	lay := fx.tc.Layout(root)
	leaves := lay.Leaves
	if n > 0 {
		leaves = lay.Leaves[off : off+n]
	}
	for _, lf := range leaves {
		name := objHeapName(root, lf)
		ms.heaps[name] = heapInfo{lf, fx.tc.heapSort(name, lf)}
	}
}

// ptrTarget statically classifies the memory a pointer-typed SSA value points into.
func (fx *FnCtx) ptrTarget(v ssa.Value, ms *modSet, typ types.Type) {
	tc := fx.tc
	off := 0
	cur := v
	for {
		switch t := cur.(type) {
		case *ssa.FieldAddr:
			stt := t.X.Type().Underlying().(*types.Pointer).Elem().Underlying().(*types.Struct)
			o, _ := tc.fieldRange(stt, t.Field)
			off += o
			cur = t.X
			continue
		case *ssa.IndexAddr:
			switch u := t.X.Type().Underlying().(type) {
			case *types.Slice:
				// element of a slice: array heap of the element type, leaves at off
				lay := tc.Layout(u.Elem())
				n := len(tc.Layout(typ).Leaves)
				for _, lf := range lay.Leaves[off : off+n] {
					name := arrHeapName(u.Elem(), lf)
					ms.heaps[name] = heapInfo{lf, tc.heapSort(name, lf)}
				}
				return
			case *types.Pointer:
				at := u.Elem().Underlying().(*types.Array)
				// array object or embedded array
				if _, isAlloc := t.X.(*ssa.Alloc); isAlloc {
					lay := tc.Layout(at.Elem())
					n := len(tc.Layout(typ).Leaves)
					for _, lf := range lay.Leaves[off : off+n] {
						name := arrHeapName(at.Elem(), lf)
						ms.heaps[name] = heapInfo{lf, tc.heapSort(name, lf)}
					}
					return
				}
				cur = t.X
				continue
			}
		case *ssa.Alloc:
			el := t.Type().(*types.Pointer).Elem()
			if at, ok := el.Underlying().(*types.Array); ok {
				fx.addArrHeaps(ms, at.Elem())
				return
			}
			if t.Heap {
				fx.addObjHeaps(ms, el, 0, 0)
				return
			}
			ms.regions[t] = true
			return
		case *ssa.Global:
			ms.globals[t] = true
			return
		}
		break
	}
	// generic pointer value: object heap of its element type (or array heap for *[N]T)
	pt, ok := cur.Type().Underlying().(*types.Pointer)
	if !ok {
		ms.all = true
		ms.why = "store through non-pointer"
		return
	}
	if at, ok := pt.Elem().Underlying().(*types.Array); ok {
		fx.addArrHeaps(ms, at.Elem())
		return
	}
	n := len(tc.Layout(typ).Leaves)
	fx.addObjHeaps(ms, pt.Elem(), off, n)
}

func (fx *FnCtx) instrMods(ins ssa.Instruction, ms *modSet, depth int) {
	switch t := ins.(type) {
	case *ssa.Store:
		fx.ptrTarget(t.Addr, ms, t.Val.Type())
	case *ssa.Alloc:
		el := t.Type().(*types.Pointer).Elem()
		if at, ok := el.Underlying().(*types.Array); ok {
			fx.addArrHeaps(ms, at.Elem())
			ms.alloc = true
		} else if t.Heap {
			fx.addObjHeaps(ms, el, 0, 0)
			ms.alloc = true
		} else {
			ms.regions[t] = true
		}
	case *ssa.MakeSlice:
		fx.addArrHeaps(ms, elemTypeOf(t.Type()))
		ms.alloc = true
	case *ssa.MakeMap:
		fx.addMapHeaps(ms, t.Type())
		ms.alloc = true
	case *ssa.MapUpdate:
		fx.addMapHeaps(ms, t.Map.Type())
	case *ssa.MakeInterface:
		ms.alloc = true
	case *ssa.Convert:
		if isStringType(t.Type()) && isSliceOfBytes(t.X.Type()) || isSliceOfBytes(t.Type()) && isStringType(t.X.Type()) {
			fx.addArrHeaps(ms, types.Typ[types.Uint8])
			ms.alloc = true
		}
	case ssa.CallInstruction:
		call := t.Common()
		if call.IsInvoke() {
			fc := fx.V.ifaceContract(call)
			if fc == nil {
				ms.all = true
				ms.why = "interface call without contract in loop"
				return
			}
			fx.contractMods(fc, ms, call)
			return
		}
		switch f := call.Value.(type) {
		case *ssa.Builtin:
			switch f.Name() {
			case "append":
				fx.addArrHeaps(ms, elemTypeOf(call.Args[0].Type()))
				ms.alloc = true
			case "copy":
				fx.addArrHeaps(ms, elemTypeOf(call.Args[0].Type()))
			case "delete":
				fx.addMapHeaps(ms, call.Args[0].Type())
			}
		case *ssa.Function:
			fx.calleeMods(f, ms, call, depth)
		case *ssa.MakeClosure:
			fx.calleeMods(f.Fn.(*ssa.Function), ms, call, depth)
		default:
			ms.all = true
			ms.why = "dynamic call in loop"
		}
	}
}

func (fx *FnCtx) calleeMods(f *ssa.Function, ms *modSet, call *ssa.CallCommon, depth int) {
	fc := fx.V.contractFor(f)
	pkg, name := funcKey(f)
	// built-in models (binaryRead, sortModel)
	if pkg == "encoding/binary" && name == "Read" {
		if mi, ok := call.Args[2].(*ssa.MakeInterface); ok {
			if pt, ok := mi.X.Type().Underlying().(*types.Pointer); ok {
				fx.ptrTarget(mi.X, ms, pt.Elem())
				return
			}
			if sl, ok := mi.X.Type().Underlying().(*types.Slice); ok {
				fx.addArrHeaps(ms, sl.Elem())
				return
			}
		}
		ms.all = true
		ms.why = "binary.Read into an unmodelled target in loop"
		return
	}
	if pkg == "sort" && (name == "Sort" || name == "Stable" || name == "IsSorted") {
		if mi, ok := call.Args[0].(*ssa.MakeInterface); ok && name != "IsSorted" {
			if sl, ok := mi.X.Type().Underlying().(*types.Slice); ok {
				fx.addArrHeaps(ms, sl.Elem())
			}
		}
		return
	}
	if pkg == "sort" && name == "Search" {
		return // the predicate is evaluated on a copy of the state (see sortSearch)
	}
	if fc != nil && !fc.Inline {
		fx.contractMods(fc, ms, call)
		return
	}
	if (fc != nil && fc.Inline) || autoInline[pkg+"."+name] {
		if depth > 6 || f.Blocks == nil {
			ms.all = true
			ms.why = "deep inline in loop"
			return
		}
		sub := &FnCtx{V: fx.V, tc: fx.tc, root: fx.root, fn: f}
		for _, b := range f.Blocks {
			for _, ins := range b.Instrs {
				sub.instrMods(ins, ms, depth+1)
			}
		}
		// stores through parameters affect caller memory: parameters are generic pointers/slices, handled by type
		return
	}
	ms.all = true
	ms.why = "call without contract in loop: " + name
}

// contractMods: type-based over-approximation of a contract's modifies clause.
func (fx *FnCtx) contractMods(fc *FuncContract, ms *modSet, call *ssa.CallCommon) {
	if len(fc.Modifies) > 0 || fc.Extra["allocates"] != "" {
		ms.alloc = true
	}
	ms.alloc = true
	for i, e := range fc.Modifies {
		_ = i
		if sc, ok := e.(*SCall); ok && sc.Fun == "objects" && len(sc.Args) == 1 {
			if fa, isF := sc.Args[0].(*SField); isF {
				if id, ok := fa.X.(*SIdent); ok {
					if t := fx.resolveType(id.Name+"."+fa.Name, nil); t != nil {
						fx.addObjHeaps(ms, t, 0, 0)
						continue
					}
				}
			}
			if id, isId := sc.Args[0].(*SIdent); isId {
				var pkg *types.Package
				for _, p := range fx.V.prog.AllPackages() {
					if p.Pkg.Path() == fc.Pkg {
						pkg = p.Pkg
					}
				}
				if t := fx.resolveType(id.Name, pkg); t != nil {
					fx.addObjHeaps(ms, t, 0, 0)
					continue
				}
			}
			ms.all = true
			ms.why = "objects() with unknown type"
			return
		}
		if sc, ok := e.(*SCall); ok && sc.Fun == "arrays" && len(sc.Args) == 1 {
			var pkg *types.Package
			for _, p := range fx.V.prog.AllPackages() {
				if p.Pkg.Path() == fc.Pkg {
					pkg = p.Pkg
				}
			}
			var t types.Type
			if tn := specTypeName(sc.Args[0]); tn != "" {
				t = fx.resolveType(tn, pkg)
			}
			if t != nil {
				fx.addArrHeaps(ms, t)
				continue
			}
			ms.all = true
			ms.why = "arrays() with unknown type"
			return
		}
		if sc, ok := e.(*SCall); ok && fx.V.cs.GhostFields[sc.Fun] {
			fx.ghostHeap(&State{Heaps: map[string]*Term{}}, "G:"+sc.Fun)
			ms.heaps["G:"+sc.Fun] = fx.V.heapLeaves["G:"+sc.Fun]
			continue
		}
		if sc, ok := e.(*SCall); ok && sc.Fun == "lockstate" {
			fx.ghostHeap(&State{Heaps: map[string]*Term{}}, "G:lock")
			ms.heaps["G:lock"] = fx.V.heapLeaves["G:lock"]
			continue
		}
		root := specRootIdent(e)
		var pt types.Type
		if fn, ok := call.Value.(*ssa.Function); ok && !call.IsInvoke() {
			for _, p := range fn.Params {
				if p.Name() == root {
					pt = p.Type()
				}
			}
		} else {
			sig := call.Signature()
			if call.IsInvoke() && (root == "self" || root == "recv") {
				pt = call.Value.Type()
			}
			for k := 0; k < sig.Params().Len(); k++ {
				if sig.Params().At(k).Name() == root {
					pt = sig.Params().At(k).Type()
				}
			}
		}
		if pt == nil {
			ms.all = true
			ms.why = "modifies clause with unresolvable root " + root
			return
		}
		switch u := pt.Underlying().(type) {
		case *types.Slice:
			fx.addArrHeaps(ms, u.Elem())
		case *types.Map:
			fx.addMapHeaps(ms, pt)
		case *types.Pointer:
			if sl, ok := e.(*SSlice); ok {
				// p.f[lo:hi]: elements of the arrays of that element type
				if st, ok := specStaticType(sl.X, root, pt).(*types.Slice); ok {
					fx.addArrHeaps(ms, st.Elem())
					continue
				}
				ms.all = true
				ms.why = "modifies through nested slice"
				return
			}
			fx.addObjHeaps(ms, u.Elem(), 0, 0)
		case *types.Interface:
			// object(i)[.f]: objects of the package's struct types that implement the interface
			if tp := fx.pkgTypes(); tp != nil {
				sc := tp.Scope()
				for _, nm := range sc.Names() {
					tn, ok := sc.Lookup(nm).(*types.TypeName)
					if !ok || tn.IsAlias() {
						continue
					}
					if _, isStruct := tn.Type().Underlying().(*types.Struct); !isStruct {
						continue
					}
					if types.Implements(types.NewPointer(tn.Type()), u) {
						fx.addObjHeaps(ms, tn.Type(), 0, 0)
					}
				}
			}
		default:
			ms.all = true
			ms.why = "modifies clause on " + pt.String()
			return
		}
	}
}

// specStaticType is the (underlying) Go type of a path expression over the parameter root of type rt:
// fields through pointers and structs, indexing of slices and arrays; nil when it cannot be told.
func specStaticType(e SpecExpr, root string, rt types.Type) types.Type {
	switch x := e.(type) {
	case *SIdent:
		if x.Name == root {
			return rt.Underlying()
		}
	case *SField:
		t := specStaticType(x.X, root, rt)
		if t == nil {
			return nil
		}
		if p, ok := t.(*types.Pointer); ok {
			t = p.Elem().Underlying()
		}
		if st, ok := t.(*types.Struct); ok {
			for i := 0; i < st.NumFields(); i++ {
				if st.Field(i).Name() == x.Name {
					return st.Field(i).Type().Underlying()
				}
			}
		}
	case *SIndex:
		switch t := specStaticType(x.X, root, rt).(type) {
		case *types.Slice:
			return t.Elem().Underlying()
		case *types.Array:
			return t.Elem().Underlying()
		}
	}
	return nil
}

func specRootIdent(e SpecExpr) string {
	switch x := e.(type) {
	case *SIdent:
		return x.Name
	case *SSlice:
		return specRootIdent(x.X)
	case *SIndex:
		return specRootIdent(x.X)
	case *SField:
		return specRootIdent(x.X)
	case *SCall:
		if len(x.Args) > 0 {
			return specRootIdent(x.Args[0])
		}
	case *SUn:
		return specRootIdent(x.X)
	}
	return ""
}

func (fx *FnCtx) havocLoop(li *loopInfo, st *State, pc *Term) {
	tc := fx.tc
	ms := fx.loopModSet(li)
	if ms.all {
		fx.fail("loop %d: cannot bound what the loop modifies (%s)", li.ord, ms.why)
	}
	if len(ms.globals) > 0 {
		fx.fail("loop %d writes package-level variables", li.ord)
	}
	lname := fmt.Sprintf("loop%d", li.ord)
	for a := range ms.regions {
		r := fx.regions[a]
		if r == nil {
			continue // allocated inside the loop: initialised there
		}
		if _, ok := st.Locals[r]; !ok {
			continue
		}
		v, err := fx.havocLike(st.Locals[r], lname+"_"+r.Name)
		if err != nil {
			fx.fail("loop %d: local %s: %v", li.ord, r.Name, err)
		}
		st.Locals[r] = v
	}
	// iterators advanced inside the loop: their visited sets change
	for b := range li.blocks {
		for _, ins := range b.Instrs {
			if nx, ok := ins.(*ssa.Next); ok {
				if r, ok := nx.Iter.(*ssa.Range); ok {
					name := fx.iterName(r)
					if cur, ok := st.Ghost[name]; ok {
						st.Ghost[name] = Value{T: cur.T, L: []*Term{Fresh(lname+"_"+name, cur.L[0].Sort)}}
					}
				}
			}
		}
	}
	for _, g := range fx.ghostAssignedInLoop(li) {
		cur := st.Ghost[g]
		nv := Value{T: cur.T, L: make([]*Term, len(cur.L))}
		for i, l := range cur.L {
			nv.L[i] = Fresh(lname+"_ghost_"+g, l.Sort)
		}
		st.Ghost[g] = nv
	}
	if ms.alloc {
		n := Fresh(lname+"_nalloc", tc.IdxSort())
		fx.assume(Implies(pc, And(tc.IdxLe(st.NAlloc, n), tc.IdxLe(n, tc.IdxNum(1<<61)))))
		st.NAlloc = n
	}
	for name, hi := range ms.heaps {
		if name[0] == 'G' {
			// ghost heap: no frame is kept across the loop; invariants must say what is needed
			st.Heaps[name] = Fresh(lname+"_"+name, hi.Sort)
			continue
		}
		if name[0] == 'M' {
			// map heaps: maps outside the modifies frame that existed at entry are unchanged
			pre := fx.mapHeap(st, name)
			nw := Fresh(lname+"_"+name, hi.Sort)
			if hi.Leaf.Kind == "len" {
				rr := BoundVar("r", tc.IdxSort())
				s := Select(nw, rr)
				fx.assume(Forall([]*Term{rr}, tc.Ge0(s), []*Term{s}))
			}
			r := BoundVar("r", tc.IdxSort())
			inFrame := False
			for _, it := range fx.root.frame {
				if it.Kind == PMap && strings.HasPrefix(name, "M:"+typeKey(it.Root)+":") {
					inFrame = Or(inFrame, Eq(r, it.Ref))
				}
			}
			body := Implies(And(tc.IdxLt(r, fx.root.entryNAlloc), Not(inFrame)), Eq(Select(nw, r), Select(pre, r)))
			fx.assume(Implies(pc, Forall([]*Term{r}, body)))
			st.Heaps[name] = nw
			continue
		}
		pre := fx.Heap(st, name, hi.Leaf)
		nw := Fresh(lname+"_"+name, hi.Sort)
		fx.noteHeapSymbol(nw, name, hi.Leaf)
		// frame: locations outside the function's modifies frame that existed at entry are unchanged
		if name[0] == 'O' {
			r := BoundVar("r", tc.IdxSort())
			inFrame := False
			for _, it := range fx.root.frame {
				if it.Kind != PObj {
					continue
				}
				if fx.frameCoversLeaf(it, name) {
					if it.Ref == nil {
						inFrame = True
					} else {
						inFrame = Or(inFrame, Eq(r, it.Ref))
					}
				}
			}
			body := Implies(And(tc.IdxLt(r, fx.root.entryNAlloc), Not(inFrame)), Eq(Select(nw, r), Select(pre, r)))
			fx.assume(Implies(pc, Forall([]*Term{r}, body)))
		} else {
			a := BoundVar("a", tc.IdxSort())
			i := BoundVar("i", tc.IdxSort())
			inFrame := False
			whole := False
			for _, it := range fx.root.frame {
				if it.Kind != PElem || !fx.frameCoversLeaf(it, name) {
					continue
				}
				if it.Arr == nil {
					inFrame, whole = True, True
				} else if it.Lo == nil {
					inFrame = Or(inFrame, Eq(a, it.Arr))
					whole = Or(whole, Eq(a, it.Arr))
				} else {
					inFrame = Or(inFrame, And(Eq(a, it.Arr), tc.IdxLe(it.Lo, i), tc.IdxLt(i, it.Hi)))
				}
			}
			body := Implies(And(tc.IdxLt(a, fx.root.entryNAlloc), Not(inFrame)), Eq(Select(Select(nw, a), i), Select(Select(pre, a), i)))
			fx.assume(Implies(pc, Forall([]*Term{a, i}, body)))
		}
		st.Heaps[name] = nw
	}
}

func (fx *FnCtx) frameCoversLeaf(it FrameItem, heapName string) bool {
	lay := fx.tc.Layout(it.Root)
	leaves := lay.Leaves
	if it.Kind == PObj && it.N != 0 {
		leaves = lay.Leaves[it.Off : it.Off+it.N]
	}
	for _, lf := range leaves {
		var n string
		if it.Kind == PObj {
			n = objHeapName(it.Root, lf)
		} else {
			n = arrHeapName(it.Root, lf)
		}
		if n == heapName {
			return true
		}
	}
	return false
}

// binaryRead is the built-in model of encoding/binary.Read(r, order, data) for data = &x with x of a
// fixed-size type: x receives an arbitrary value of its type and an arbitrary error is returned.
// Assumed (trusted): binary.Read changes no modelled state other than *data, does not panic for a
// pointer to a fixed-size value, and returns.
func (fx *FnCtx) binaryRead(st *State, pc *Term, call *ssa.CallCommon, rt types.Type) Value {
	fx.V.usedTrusted["encoding/binary.Read (built-in model)"] = true
	var p *PtrInfo
	if mi, ok := call.Args[2].(*ssa.MakeInterface); ok && fx.ifacePtrs != nil {
		p = fx.ifacePtrs[mi]
	}
	if mi, ok := call.Args[2].(*ssa.MakeInterface); ok && p == nil {
		if sl, ok := mi.X.Type().Underlying().(*types.Slice); ok && len(fx.tc.Layout(sl.Elem()).Leaves) == 1 {
			// data is a slice of fixed-size values: its elements receive arbitrary values
			x := fx.val(mi.X)
			tc := fx.tc
			lo, hi := x.L[1], tc.IdxAdd(x.L[1], x.L[2])
			fx.frameCheckRange(st, pc, sl.Elem(), x.L[0], lo, hi)
			fx.havocFrame(st, pc, []FrameItem{{Kind: PElem, Root: sl.Elem(), Arr: x.L[0], Lo: lo, Hi: hi, Src: "binary.Read"}}, "binread")
			res, rfacts := fx.tc.FreshValue(rt, "binread_err")
			for _, f := range rfacts {
				fx.assume(f)
			}
			fx.recordSliceRead(st, pc, x, sl.Elem(), res.L[0])
			return res
		}
	}
	if p == nil {
		fx.fail("binary.Read: the data argument is not the address of a variable (outside the model)")
	}
	fx.nonNil(pc, p, "binary.Read target")
	fx.frameCheck(st, pc, p)
	nv, facts := fx.tc.FreshValue(p.Typ, "binread")
	for _, f := range facts {
		fx.assume(f)
	}
	old := fx.Load(st, p)
	m, err := iteValue(pc, nv, old)
	if err != nil {
		fx.fail("binary.Read: %v", err)
	}
	fx.StoreTo(st, p, m)
	res, rfacts := fx.tc.FreshValue(rt, "binread_err")
	for _, f := range rfacts {
		fx.assume(f)
	}
	sr := &StreamRead{PC: pc, ErrTag: res.L[0]}
	if !fx.flattenStream(p.Typ, nv.L, sr) {
		fx.root.streamBad = true
	}
	fx.root.stream = append(fx.root.stream, sr)
	return res
}

// flattenStream lists the integer values of a fixed-size value in encoding order.
func (fx *FnCtx) flattenStream(t types.Type, leaves []*Term, sr *StreamRead) bool {
	switch u := t.Underlying().(type) {
	case *types.Basic:
		if w, _, ok := intInfo(t); ok && len(leaves) == 1 {
			sr.Terms = append(sr.Terms, leaves[0])
			sr.Widths = append(sr.Widths, w/8)
			return true
		}
	case *types.Array:
		if w, _, ok := intInfo(u.Elem()); ok && len(leaves) == 1 && u.Len() <= 64 {
			for k := int64(0); k < u.Len(); k++ {
				sr.Terms = append(sr.Terms, Select(leaves[0], fx.tc.IdxNum(k)))
				sr.Widths = append(sr.Widths, w/8)
			}
			return true
		}
	}
	return false
}

// recordSliceRead records a read that filled the slice x (after the call) from a reader.
func (fx *FnCtx) recordSliceRead(st *State, pc *Term, x Value, el types.Type, errTag *Term) {
	w, _, ok := intInfo(el)
	lay := fx.tc.Layout(el)
	if !ok || len(lay.Leaves) != 1 {
		fx.root.streamBad = true
		return
	}
	name := arrHeapName(el, lay.Leaves[0])
	h := fx.Heap(st, name, lay.Leaves[0])
	fx.root.stream = append(fx.root.stream, &StreamRead{PC: pc, ErrTag: errTag, Heap: h, Arr: x.L[0], Lo: x.L[1], Len: x.L[2], ElemW: w / 8})
}

// sortModel is the built-in model of sort.Sort / sort.Stable / sort.IsSorted applied to a slice type
// that implements sort.Interface: Sort and Stable leave arbitrary values in the elements of the slice
// (a permutation is an instance), IsSorted returns an arbitrary boolean. Assumed (trusted): the Len,
// Less and Swap methods of the slice type only touch the slice's own elements and do not panic for
// indices below Len.
func (fx *FnCtx) sortModel(st *State, pc *Term, name string, call *ssa.CallCommon, rt types.Type) Value {
	fx.V.usedTrusted["sort."+name+" (built-in model)"] = true
	mi, ok := call.Args[0].(*ssa.MakeInterface)
	if !ok {
		fx.fail("sort.%s: argument is not a conversion of a slice (outside the model)", name)
	}
	sl, ok := mi.X.Type().Underlying().(*types.Slice)
	if !ok {
		fx.fail("sort.%s: argument type %v is not a slice type (outside the model)", name, mi.X.Type())
	}
	x := fx.val(mi.X)
	tc := fx.tc
	if name == "IsSorted" {
		res, _ := fx.tc.FreshValue(rt, "issorted")
		// a true answer means the elements are in order (for a Less that is a strict weak order,
		// which is assumed: no pair of a later and an earlier element with later < earlier)
		if so := fx.sortedByLess(st, pc, mi, x); so != nil {
			fx.assume(Implies(And(pc, res.L[0]), so))
		}
		return res
	}
	lo, hi := x.L[1], tc.IdxAdd(x.L[1], x.L[2])
	fx.frameCheckRange(st, pc, sl.Elem(), x.L[0], lo, hi)
	leaves := tc.Layout(sl.Elem()).Leaves
	oldArrs := make([]*Term, len(leaves))
	for i, lf := range leaves {
		oldArrs[i] = Select(fx.Heap(st, arrHeapName(sl.Elem(), lf), lf), x.L[0])
	}
	fx.havocFrame(st, pc, []FrameItem{{Kind: PElem, Root: sl.Elem(), Arr: x.L[0], Lo: lo, Hi: hi, Src: "sort." + name}}, "sort")
	// sorting permutes: every element of the old contents occurs in the new contents, at the
	// position an uninterpreted function names
	sortPermN++
	pf := DeclareUF(fmt.Sprintf("sortperm_%d", sortPermN), []*Sort{tc.IdxSort()}, tc.IdxSort())
	k := BoundVar("k", tc.IdxSort())
	pk := pf.App(k)
	conj := []*Term{tc.IdxLe(tc.IdxNum(0), pk), tc.IdxLt(pk, x.L[2])}
	var firstOld *Term
	for i, lf := range leaves {
		newArr := Select(fx.Heap(st, arrHeapName(sl.Elem(), lf), lf), x.L[0])
		o := Select(oldArrs[i], tc.IdxAdd(x.L[1], k))
		if firstOld == nil {
			firstOld = o
		}
		conj = append(conj, Eq(Select(newArr, tc.IdxAdd(x.L[1], pk)), o))
	}
	body := Implies(And(tc.IdxLe(tc.IdxNum(0), k), tc.IdxLt(k, x.L[2])), And(conj...))
	pats := [][]*Term{{pk}}
	if firstOld != nil {
		pats = append(pats, []*Term{firstOld})
	}
	fx.assume(Implies(pc, Forall([]*Term{k}, body, pats...)))
	// ... and every element of the new contents is one of the old ones
	{
		qf := DeclareUF(fmt.Sprintf("sortperminv_%d", sortPermN), []*Sort{tc.IdxSort()}, tc.IdxSort())
		m := BoundVar("m", tc.IdxSort())
		qm := qf.App(m)
		cj := []*Term{tc.IdxLe(tc.IdxNum(0), qm), tc.IdxLt(qm, x.L[2])}
		var firstNew *Term
		for i, lf := range leaves {
			newArr := Select(fx.Heap(st, arrHeapName(sl.Elem(), lf), lf), x.L[0])
			nw := Select(newArr, tc.IdxAdd(x.L[1], m))
			if firstNew == nil {
				firstNew = nw
			}
			cj = append(cj, Eq(nw, Select(oldArrs[i], tc.IdxAdd(x.L[1], qm))))
		}
		b2 := Implies(And(tc.IdxLe(tc.IdxNum(0), m), tc.IdxLt(m, x.L[2])), And(cj...))
		p2 := [][]*Term{{qm}}
		if firstNew != nil {
			p2 = append(p2, []*Term{firstNew})
		}
		fx.assume(Implies(pc, Forall([]*Term{m}, b2, p2...)))
	}
	// and the new contents are in order
	if so := fx.sortedByLess(st, pc, mi, x); so != nil {
		fx.assume(Implies(pc, so))
	}
	return Value{T: rt}
}

// sortedByLess states, for the slice x converted to a sort.Interface at mi, that no later element is
// Less than an earlier one in state st: forall i < j :: !x.Less(j, i). The Less method of the
// slice type is executed symbolically, first at two arbitrary indices (which generates its safety
// obligations) and then at the bound variables (obligations and facts of that run are dropped). Nil
// when the type has no Less method with a body.
func (fx *FnCtx) sortedByLess(st *State, pc *Term, mi *ssa.MakeInterface, x Value) *Term {
	tc := fx.tc
	ms := fx.V.prog.MethodSets.MethodSet(mi.X.Type())
	var less *ssa.Function
	for i := 0; i < ms.Len(); i++ {
		if ms.At(i).Obj().Name() == "Less" {
			less = fx.V.prog.MethodValue(ms.At(i))
		}
	}
	if less == nil || less.Blocks == nil {
		return nil
	}
	intT := types.Typ[types.Int]
	boolT := types.Typ[types.Bool]
	n := x.L[2]
	recv := x
	recv.T = mi.X.Type()
	run := func(a, b *Term, cond *Term) *Term {
		r := fx.inlineCall(st.Clone(), And(pc, cond), less, fx.V.contractFor(less), nil,
			[]Value{recv, {T: intT, L: []*Term{a}}, {T: intT, L: []*Term{b}}}, boolT)
		return r.L[0]
	}
	inRange := func(a, b *Term) *Term {
		return And(tc.IdxLe(tc.IdxNum(0), a), tc.IdxLt(a, b), tc.IdxLt(b, n))
	}
	g1, f1 := tc.FreshValue(intT, "sortany")
	g2, f2 := tc.FreshValue(intT, "sortany")
	for _, f := range append(f1, f2...) {
		fx.assume(f)
	}
	a1, a2 := fx.toIdx(g1, intT), fx.toIdx(g2, intT)
	run(a2, a1, inRange(a1, a2))
	// at the bound variables: keep only the value
	nObl, nAss, nNotes, nAx := len(fx.root.obls), len(fx.root.assumes), len(fx.root.assumeNotes), len(fx.root.axioms)
	saveCnt := map[string]int{}
	for k, v := range fx.root.counters {
		saveCnt[k] = v
	}
	i := BoundVar("si", tc.IdxSort())
	j := BoundVar("sj", tc.IdxSort())
	lt := run(j, i, inRange(i, j))
	fx.root.obls = fx.root.obls[:nObl]
	fx.root.assumes = fx.root.assumes[:nAss]
	fx.root.assumeNotes = fx.root.assumeNotes[:nNotes]
	kept := fx.root.axioms[:nAx]
	for _, ax := range fx.root.axioms[nAx:] {
		if !ax.hasBnd {
			kept = append(kept, ax)
		}
	}
	fx.root.axioms = kept
	fx.root.counters = saveCnt
	fx.root.noteOnce("assumed: the Less method given to sort." + "Sort/IsSorted is a strict weak order (sorted means: no later element is Less than an earlier one)")
	return Forall([]*Term{i, j}, Implies(inRange(i, j), Not(lt)))
}

var sortPermN int

// specTypeName renders a type written as a specification expression: T, pkg.T, *T.
func specTypeName(e SpecExpr) string {
	switch a := e.(type) {
	case *SIdent:
		return a.Name
	case *SField:
		if id, ok := a.X.(*SIdent); ok {
			return id.Name + "." + a.Name
		}
	case *SUn:
		if a.Op == "*" {
			if n := specTypeName(a.X); n != "" {
				return "*" + n
			}
		}
	}
	return ""
}

// sortSearch is the built-in model of sort.Search(n, f) for a closure f known at the call: the
// result c satisfies 0 <= c <= n, f(c) when c < n, and !f(c-1) when c > 0 (the invariant of the
// binary search, which holds whether or not f is monotone). f is evaluated on a copy of the state
// (its effects on memory, if any, are not carried over: it must be a pure predicate, which the
// frame check of the enclosing function enforces for existing memory); its safety obligations are
// generated for an arbitrary index in [0, n).
func (fx *FnCtx) sortSearch(st *State, pc *Term, call *ssa.CallCommon, rt types.Type) Value {
	fx.V.usedTrusted["sort.Search (built-in model)"] = true
	tc := fx.tc
	fv := fx.val(call.Args[1])
	if fv.Fn == nil {
		fx.fail("sort.Search: the predicate is not a function literal known at the call (outside the model)")
	}
	intT := types.Typ[types.Int]
	n := fx.toIdx(fx.val(call.Args[0]), intT)
	evalAt := func(i Value, cond *Term) *Term {
		st2 := st.Clone()
		r := fx.callFunction(st2, And(pc, cond), fv.Fn.Fn, fv.Fn.Bindings, []Value{i}, types.Typ[types.Bool])
		return r.L[0]
	}
	g, gf := tc.FreshValue(intT, "searchany")
	for _, f := range gf {
		fx.assume(f)
	}
	gi := fx.toIdx(g, intT)
	evalAt(g, And(tc.IdxLe(tc.IdxNum(0), gi), tc.IdxLt(gi, n)))
	c, cf := tc.FreshValue(intT, "search")
	for _, f := range cf {
		fx.assume(f)
	}
	ci := fx.toIdx(c, intT)
	fx.assume(Implies(pc, And(tc.IdxLe(tc.IdxNum(0), ci), tc.IdxLe(ci, n))))
	inRange := tc.IdxLt(ci, n)
	r1 := evalAt(c, inRange)
	fx.assume(Implies(And(pc, inRange), r1))
	pos := tc.IdxLt(tc.IdxNum(0), ci)
	prev := Value{T: intT, L: []*Term{tc.IdxSub(ci, tc.IdxNum(1))}}
	r2 := evalAt(prev, pos)
	fx.assume(Implies(And(pc, pos), Not(r2)))
	c.T = rt
	return c
}
