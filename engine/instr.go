package main

// Semantics of individual SSA instructions.

import (
	"fmt"
	"go/constant"
	"go/token"
	"go/types"
	"math/big"
	"strings"

	"golang.org/x/tools/go/ssa"
)

func (fx *FnCtx) constValue(c *ssa.Const) Value {
	t := c.Type()
	tc := fx.tc
	if c.Value == nil {
		return tc.Zero(t)
	}
	switch {
	case isIntType(t):
		bi, ok := constant.Val(constant.ToInt(c.Value)).(*big.Int)
		var v *big.Int
		if ok {
			v = bi
		} else if i64, ok2 := constant.Val(constant.ToInt(c.Value)).(int64); ok2 {
			v = big.NewInt(i64)
		} else {
			fx.fail("cannot evaluate constant %v", c)
		}
		return Value{T: t, L: []*Term{tc.IntConst(v, t)}}
	case isBoolType(t):
		return Value{T: t, L: []*Term{Bool(constant.BoolVal(c.Value))}}
	case isStringType(t):
		s := constant.StringVal(c.Value)
		return fx.stringConst(s, t)
	case isFloatType(t):
		return Value{T: t, L: []*Term{Fresh("float", tc.IdxSort())}}
	}
	fx.fail("unsupported constant type %v", t)
	return Value{}
}

func (tc *Tcx) IntConst(v *big.Int, t types.Type) *Term {
	if tc.Mode == ModeBV {
		w, _, _ := intInfo(t)
		return BVBig(v, w)
	}
	return IntBig(v)
}

// stringConst: a constant string lives in a dedicated backing array whose id is a
// symbol determined by the contents; the bytes are asserted as axioms.
func (fx *FnCtx) stringConst(s string, t types.Type) Value {
	tc := fx.tc
	if s == "" {
		return Value{T: t, L: []*Term{tc.IdxNum(0), tc.IdxNum(0), tc.IdxNum(0)}}
	}
	key := fmt.Sprintf("str_%s_%x", tc.Mode, s)
	if len(key) > 80 {
		key = fmt.Sprintf("str_%s_%x_%d", tc.Mode, s[:16], len(s))
	}
	id := Sym(key, tc.IdxSort())
	if !fx.root.heapAxiomDone[id] {
		fx.root.heapAxiomDone[id] = true
		// string constants sit below the entry allocation counter and are distinct from 0
		fx.root.axioms = append(fx.root.axioms, tc.IdxLt(tc.IdxNum(0), id), tc.IdxLt(id, fx.root.entryNAlloc))
		// the content key of the constant, also when it is reached through a merged value
		// (if-then-else of a variable string and the constant): strkey(id, 0, len) is its numeral
		{
			k, ok := fx.V.strConsts[id.Name]
			if !ok {
				k = len(fx.V.strConsts) + 1
				fx.V.strConsts[id.Name] = k
			}
			f := DeclareUF("strkey_"+tc.Mode.String(), []*Sort{tc.IdxSort(), tc.IdxSort(), tc.IdxSort()}, tc.IdxSort())
			fx.root.axioms = append(fx.root.axioms, Eq(f.App(id, tc.IdxNum(0), tc.IdxNum(int64(len(s)))), tc.IdxNum(int64(k))))
		}
		lf := tc.Layout(types.Typ[types.Uint8]).Leaves[0]
		h := fx.initialHeap(arrHeapName(types.Typ[types.Uint8], lf), tc.heapSort("A", lf), lf)
		if len(s) <= 64 {
			for i := 0; i < len(s); i++ {
				fx.root.axioms = append(fx.root.axioms, Eq(Select(Select(h, id), tc.IdxNum(int64(i))), tc.IntConst(big.NewInt(int64(s[i])), types.Typ[types.Uint8])))
			}
		}
	}
	return Value{T: t, L: []*Term{id, tc.IdxNum(0), tc.IdxNum(int64(len(s)))}}
}

func (fx *FnCtx) globalValue(st *State, g *ssa.Global) Value {
	if v, ok := st.Globals[g]; ok {
		return v
	}
	t := g.Type().(*types.Pointer).Elem()
	if _, isFn := t.Underlying().(*types.Signature); isFn {
		if f := fx.V.initOnlyFunc(g); f != nil {
			fx.root.noteOnce("assumed: the package-level function variable " + g.Pkg.Pkg.Path() + "." + g.Name() + " holds the function it is initialised with (" + f.Name() + "): it is assigned nowhere else in the module")
			v := Value{T: t, Fn: &FuncVal{Fn: f}}
			st.Globals[g] = v
			return v
		}
	}
	name := "G_" + fx.tc.Mode.String() + "_" + g.Pkg.Pkg.Path() + "." + g.Name()
	lay := fx.tc.Layout(t)
	v := Value{T: t, L: make([]*Term, len(lay.Leaves))}
	for i, l := range lay.Leaves {
		v.L[i] = Sym(name+l.Path, l.Sort)
		if !fx.root.heapAxiomDone[v.L[i]] {
			fx.root.heapAxiomDone[v.L[i]] = true
			for _, f := range fx.tc.leafFacts(l, v.L[i]) {
				fx.root.axioms = append(fx.root.axioms, f)
			}
			if l.Kind == "id" {
				fx.root.axioms = append(fx.root.axioms, fx.tc.IdxLt(v.L[i], fx.root.entryNAlloc))
			}
			if l.Kind == "ref" {
				fx.root.axioms = append(fx.root.axioms, fx.tc.validRef(v.L[i], fx.root.entryNAlloc))
			}
		}
	}
	fx.V.tableFacts(fx, g, v)
	// sentinel errors (package-level variables of type error named EOF/Err*): non-nil, pairwise distinct
	if types.Identical(t, types.Universe.Lookup("error").Type()) && (g.Name() == "EOF" || strings.HasPrefix(g.Name(), "Err") || fx.V.initOnlyError(g)) {
		marker := Sym("sentinel_"+name, BoolSort)
		if !fx.root.heapAxiomDone[marker] {
			fx.root.heapAxiomDone[marker] = true
			tc := fx.tc
			fx.root.axioms = append(fx.root.axioms, tc.IdxLt(tc.IdxNum(0), v.L[0]), tc.IdxLt(tc.IdxNum(0), v.L[1]))
			for _, other := range fx.root.sentinels {
				fx.root.axioms = append(fx.root.axioms, Not(Eq(other, v.L[1])))
			}
			fx.root.sentinels = append(fx.root.sentinels, v.L[1])
			fx.root.noteOnce("assumed: sentinel error variables (EOF, Err*) are non-nil, distinct and never reassigned")
		}
	}
	st.Globals[g] = v
	return v
}

// asPtr turns a pointer-typed value into an engine pointer.
func (fx *FnCtx) asPtr(v Value) *PtrInfo {
	if v.P != nil {
		return v.P
	}
	pt, ok := v.T.Underlying().(*types.Pointer)
	if !ok {
		fx.fail("asPtr on non-pointer %v", v.T)
	}
	el := pt.Elem()
	if at, ok := el.Underlying().(*types.Array); ok {
		// pointer to an array object: arrays live in the array heap
		return &PtrInfo{Kind: PElem, Arr: v.L[0], Idx: nil, Root: at.Elem(), Typ: el}
	}
	return &PtrInfo{Kind: PObj, Ref: v.L[0], Root: el, Typ: el}
}

// ptrAsLeaves converts an engine pointer to a storable reference if possible.
func (fx *FnCtx) storable(v Value) Value {
	if v.P == nil {
		return v
	}
	p := v.P
	switch {
	case p.Kind == PObj && p.Off == 0 && len(p.ArrIdx) == 0 && types.Identical(p.Root, p.Typ):
		return Value{T: v.T, L: []*Term{p.Ref}}
	case p.Kind == PElem && p.Idx == nil && len(p.ArrIdx) == 0:
		return Value{T: v.T, L: []*Term{p.Arr}}
	}
	fx.fail("interior pointer of type %v escapes to memory (outside the modelled subset)", v.T)
	return Value{}
}

func (fx *FnCtx) nonNil(pc *Term, p *PtrInfo, what string) {
	tc := fx.tc
	switch p.Kind {
	case PObj:
		fx.safety("nil", pc, Not(Eq(p.Ref, tc.IdxNum(0))), "nil pointer dereference: "+what)
	case PElem:
		if p.Idx == nil {
			fx.safety("nil", pc, Not(Eq(p.Arr, tc.IdxNum(0))), "nil pointer dereference: "+what)
		}
	}
}

func (fx *FnCtx) execInstr(st *State, pc *Term, ins ssa.Instruction) {
	tc := fx.tc
	switch t := ins.(type) {
	case *ssa.DebugRef:
		return
	case *ssa.Alloc:
		fx.execAlloc(st, pc, t)
	case *ssa.BinOp:
		fx.vals[t] = fx.binop(pc, t.Op, fx.val(t.X), fx.val(t.Y), t.Type(), t.X.Type(), t.Y.Type())
	case *ssa.UnOp:
		fx.execUnOp(st, pc, t)
	case *ssa.Store:
		p := fx.asPtr(fx.val(t.Addr))
		fx.nonNil(pc, p, "store")
		v := fx.storable(fx.val(t.Val))
		fx.frameCheck(st, pc, p)
		fx.StoreTo(st, p, v)
		if site, isSite := fx.storeSites[t]; isSite && fx.topLevel && fx.fc != nil && len(fx.fc.GhostAt) > 0 {
			env := fx.entryEnv(st)
			env.oldEnv = fx.entryEnv(fx.entry)
			env.pc = pc
			env.lookup = fx.siteLookup(st, t)
			fx.runGhost(fmt.Sprintf("store#%d", site), st, env)
		}
		if site, isSite := fx.stmtSites[t]; isSite && fx.topLevel && fx.fc != nil {
			env := fx.entryEnv(st)
			env.oldEnv = fx.entryEnv(fx.entry)
			env.pc = pc
			env.lookup = fx.siteLookup(st, t)
			fx.runGhost(site, st, env)
		}
	case *ssa.FieldAddr:
		p := fx.asPtr(fx.val(t.X))
		fx.nonNil(pc, p, "field address")
		stt := t.X.Type().Underlying().(*types.Pointer).Elem().Underlying().(*types.Struct)
		if embeddedFields[stt.Field(t.Field)] {
			fx.vals[t] = Value{T: t.Type(), P: fx.embeddedPtr(p, stt, t.Field)}
			return
		}
		off, _ := tc.fieldRange(stt, t.Field)
		np := *p
		np.Off = p.Off + off
		np.Typ = stt.Field(t.Field).Type()
		fx.vals[t] = Value{T: t.Type(), P: &np}
	case *ssa.Field:
		x := fx.val(t.X)
		stt := t.X.Type().Underlying().(*types.Struct)
		off, n := tc.fieldRange(stt, t.Field)
		fx.vals[t] = Value{T: t.Type(), L: x.L[off : off+n]}
	case *ssa.IndexAddr:
		fx.execIndexAddr(st, pc, t)
	case *ssa.Index:
		x := fx.val(t.X)
		idx := fx.toIdx(fx.val(t.Index), t.Index.Type())
		switch u := t.X.Type().Underlying().(type) {
		case *types.Array:
			fx.safety("bounds", pc, And(tc.IdxLe(tc.IdxNum(0), idx), tc.IdxLt(idx, tc.IdxNum(u.Len()))), "array index in range")
			out := Value{T: t.Type(), L: make([]*Term, len(x.L))}
			for i, l := range x.L {
				out.L[i] = Select(l, idx)
			}
			fx.vals[t] = out
		case *types.Basic: // string
			fx.safety("bounds", pc, And(tc.IdxLe(tc.IdxNum(0), idx), tc.IdxLt(idx, x.L[2])), "string index in range")
			fx.vals[t] = fx.readElem(st, types.Typ[types.Uint8], x.L[0], tc.IdxAdd(x.L[1], idx))
			fx.vals[t] = Value{T: t.Type(), L: fx.vals[t].L}
		default:
			fx.fail("Index on %v", t.X.Type())
		}
	case *ssa.Slice:
		fx.execSlice(st, pc, t)
	case *ssa.Phi:
		fx.fail("phi in the middle of a block")
	case *ssa.Call:
		if bsite, isB := fx.beforeSites[t]; isB && fx.topLevel && fx.fc != nil {
			env := fx.entryEnv(st)
			env.oldEnv = fx.entryEnv(fx.entry)
			env.pc = pc
			env.lookup = fx.siteLookup(st, t)
			fx.runGhost(bsite, st, env)
		}
		var preSt *State
		site, isSite := fx.appendSites[t]
		if isSite && fx.topLevel {
			preSt = st.Clone()
		}
		v := fx.execCall(st, pc, t, &t.Call)
		fx.vals[t] = v
		if isSite && fx.topLevel && fx.fc != nil && len(fx.fc.GhostAt) > 0 {
			env := fx.entryEnv(st)
			env.oldEnv = fx.entryEnv(fx.entry)
			dst := fx.val(t.Call.Args[0])
			src := fx.val(t.Call.Args[1])
			env.vars["dst"] = SV{V: dst}
			env.vars["res"] = SV{V: v}
			env.pc = pc
			env.lookup = fx.siteLookup(st, t)
			env.vars["fits"] = SV{V: Value{T: types.Typ[types.Bool], L: []*Term{And(Eq(v.L[0], dst.L[0]), Eq(v.L[1], dst.L[1]))}}}
			if _, ok := t.Call.Args[1].Type().Underlying().(*types.Slice); ok {
				el := elemTypeOf(t.Call.Args[1].Type())
				env.vars["elem0"] = SV{V: fx.readElem(preSt, el, src.L[0], src.L[1])}
			}
			fx.runGhost(fmt.Sprintf("append#%d", site), st, env)
		}
		if site, isSite := fx.stmtSites[t]; isSite && fx.topLevel && fx.fc != nil {
			env := fx.entryEnv(st)
			env.oldEnv = fx.entryEnv(fx.entry)
			env.pc = pc
			env.lookup = fx.siteLookup(st, t)
			// the results of the call are available as ret (single result) or ret0, ret1, ...
			if tup, ok := t.Type().(*types.Tuple); ok {
				off := 0
				for k := 0; k < tup.Len(); k++ {
					n := len(tc.Layout(tup.At(k).Type()).Leaves)
					if off+n <= len(v.L) {
						env.vars[fmt.Sprintf("ret%d", k)] = SV{V: Value{T: tup.At(k).Type(), L: v.L[off : off+n]}}
					}
					off += n
				}
			} else if t.Type() != nil {
				env.vars["ret"] = SV{V: v}
			}
			fx.runGhost(site, st, env)
		}
	case *ssa.Extract:
		tup := fx.val(t.Tuple)
		tt := t.Tuple.Type().(*types.Tuple)
		off := 0
		for i := 0; i < t.Index; i++ {
			off += len(tc.Layout(tt.At(i).Type()).Leaves)
		}
		n := len(tc.Layout(tt.At(t.Index).Type()).Leaves)
		fx.vals[t] = Value{T: t.Type(), L: tup.L[off : off+n]}
	case *ssa.Convert:
		fx.vals[t] = fx.convert(st, pc, fx.val(t.X), t.X.Type(), t.Type())
	case *ssa.ChangeType:
		x := fx.val(t.X)
		x.T = t.Type()
		fx.vals[t] = x
	case *ssa.MakeSlice:
		ln := fx.toIdx(fx.val(t.Len), t.Len.Type())
		cp := fx.toIdx(fx.val(t.Cap), t.Cap.Type())
		fx.safety("make", pc, And(tc.IdxLe(tc.IdxNum(0), ln), tc.IdxLe(ln, cp)), "make: length non-negative and at most capacity")
		id := fx.newRef(st)
		el := elemTypeOf(t.Type())
		for _, lf := range tc.Layout(el).Leaves {
			name := arrHeapName(el, lf)
			h := fx.Heap(st, name, lf)
			st.Heaps[name] = Store(h, id, ConstArray(ArraySort(tc.IdxSort(), lf.Sort), tc.zeroLeaf(lf)))
		}
		fx.vals[t] = fx.mkSlice(t.Type(), id, tc.IdxNum(0), ln, cp)
	case *ssa.MakeInterface:
		fx.vals[t] = fx.makeInterface(st, pc, t)
	case *ssa.MakeClosure:
		fv := &FuncVal{Fn: t.Fn.(*ssa.Function)}
		for _, b := range t.Bindings {
			fv.Bindings = append(fv.Bindings, fx.val(b))
		}
		fx.vals[t] = Value{T: t.Type(), Fn: fv}
	case *ssa.TypeAssert:
		fx.vals[t] = fx.typeAssert(st, pc, t)
	case *ssa.Defer:
		fx.deferred = append(fx.deferred, t)
	case *ssa.RunDefers:
		fx.runDefers(st, pc)
	case *ssa.MakeMap:
		fx.vals[t] = fx.makeMap(st, pc, t)
	case *ssa.MapUpdate:
		fx.mapUpdate(st, pc, t)
	case *ssa.Lookup:
		fx.vals[t] = fx.lookup(st, pc, t)
	case *ssa.Range:
		fx.vals[t] = fx.rangeInit(st, pc, t)
	case *ssa.Next:
		fx.vals[t] = fx.rangeNext(st, pc, t)
	case *ssa.ChangeInterface:
		x := fx.val(t.X)
		x.T = t.Type()
		fx.vals[t] = x
	case *ssa.SliceToArrayPointer:
		x := fx.val(t.X)
		at := t.Type().Underlying().(*types.Pointer).Elem().Underlying().(*types.Array)
		fx.safety("bounds", pc, tc.IdxLe(tc.IdxNum(at.Len()), x.L[2]), "slice to array pointer: length suffices")
		if !(x.L[1].IsNum() && x.L[1].Val.Sign() == 0) {
			fx.fail("slice-to-array-pointer of a slice with non-zero offset is outside the model")
		}
		fx.vals[t] = Value{T: t.Type(), L: []*Term{x.L[0]}}
	case *ssa.Send:
		if top := fx.root.top; top != nil && top.fc != nil && top.fc.IgnoreChan {
			fx.root.noteOnce("ASSUMED in " + top.fn.Name() + ": channel sends are not modelled (declared 'channels ignored'): what the receiver does with the value is outside this contract")
			return
		}
		fx.fail("concurrency instruction %T is outside the verifiable subset", ins)
	case *ssa.Go, *ssa.Select, *ssa.MakeChan:
		fx.fail("concurrency instruction %T is outside the verifiable subset", ins)
	default:
		fx.fail("unsupported instruction %T", ins)
	}
}

// embeddedPtr: pointer to the embedded object at field idx of the object p points to.
func (fx *FnCtx) embeddedPtr(p *PtrInfo, stt *types.Struct, idx int) *PtrInfo {
	if p.Kind != PObj || p.Off != 0 || len(p.ArrIdx) != 0 {
		fx.fail("embedded field %s of an object that is not addressed by a plain reference", stt.Field(idx).Name())
	}
	ft := stt.Field(idx).Type()
	return &PtrInfo{Kind: PObj, Ref: fx.tc.embRef(p.Ref, idx), Root: ft, Typ: ft}
}

// zeroEmbedded zero-initialises the embedded objects of a freshly allocated object.
func (fx *FnCtx) zeroEmbedded(st *State, ref *Term, t types.Type, depth int) {
	stt, ok := t.Underlying().(*types.Struct)
	if !ok || depth > 3 {
		return
	}
	for i := 0; i < stt.NumFields(); i++ {
		if !embeddedFields[stt.Field(i)] {
			continue
		}
		ft := stt.Field(i).Type()
		er := fx.tc.embRef(ref, i)
		fx.StoreTo(st, &PtrInfo{Kind: PObj, Ref: er, Root: ft, Typ: ft}, fx.tc.Zero(ft))
		fx.zeroEmbedded(st, er, ft, depth+1)
	}
}

func (fx *FnCtx) execAlloc(st *State, pc *Term, t *ssa.Alloc) {
	tc := fx.tc
	el := t.Type().(*types.Pointer).Elem()
	if at, ok := el.Underlying().(*types.Array); ok {
		id := fx.newRef(st)
		for _, lf := range tc.Layout(at.Elem()).Leaves {
			name := arrHeapName(at.Elem(), lf)
			h := fx.Heap(st, name, lf)
			st.Heaps[name] = Store(h, id, ConstArray(ArraySort(tc.IdxSort(), lf.Sort), tc.zeroLeaf(lf)))
		}
		fx.vals[t] = Value{T: t.Type(), P: &PtrInfo{Kind: PElem, Arr: id, Idx: nil, Root: at.Elem(), Typ: el}}
		return
	}
	if t.Heap {
		ref := fx.newRef(st)
		p := &PtrInfo{Kind: PObj, Ref: ref, Root: el, Typ: el}
		fx.StoreTo(st, p, tc.Zero(el))
		fx.zeroEmbedded(st, ref, el, 0)
		fx.vals[t] = Value{T: t.Type(), P: p}
		return
	}
	r := fx.regions[t]
	if r == nil {
		r = &Region{Name: t.Comment, T: el}
		fx.regions[t] = r
	}
	st.Locals[r] = tc.Zero(el)
	fx.vals[t] = Value{T: t.Type(), P: &PtrInfo{Kind: PLocal, Region: r, Root: el, Typ: el}}
}

func (fx *FnCtx) execUnOp(st *State, pc *Term, t *ssa.UnOp) {
	tc := fx.tc
	x := fx.val(t.X)
	switch t.Op {
	case token.MUL: // load
		p := fx.asPtr(x)
		fx.nonNil(pc, p, "load")
		v := fx.Load(st, p)
		v.T = t.Type()
		if v.Fn == nil {
			fx.loadFacts(st, pc, v)
		}
		fx.vals[t] = v
	case token.NOT:
		fx.vals[t] = Value{T: t.Type(), L: []*Term{Not(x.L[0])}}
	case token.SUB:
		if isFloatType(t.Type()) {
			fx.vals[t] = Value{T: t.Type(), L: []*Term{Fresh("float", tc.IdxSort())}}
			return
		}
		if tc.Mode == ModeBV {
			fx.vals[t] = Value{T: t.Type(), L: []*Term{BVNeg(x.L[0])}}
		} else {
			r := INeg(x.L[0])
			fx.overflow(pc, r, t.Type(), "negation")
			fx.vals[t] = Value{T: t.Type(), L: []*Term{fx.wrapIfNeeded(r, t.Type())}}
		}
	case token.XOR:
		if tc.Mode == ModeBV {
			fx.vals[t] = Value{T: t.Type(), L: []*Term{BVNot(x.L[0])}}
		} else {
			_, signed, _ := intInfo(t.Type())
			if signed {
				fx.vals[t] = Value{T: t.Type(), L: []*Term{ISub(INeg(x.L[0]), IntNum(1))}}
			} else {
				_, hi := typeRange(t.Type())
				fx.vals[t] = Value{T: t.Type(), L: []*Term{ISub(IntBig(hi), x.L[0])}}
			}
		}
	case token.ARROW:
		fx.fail("channel receive is outside the verifiable subset")
	default:
		fx.fail("unsupported unary op %v", t.Op)
	}
}

// loadFacts: values loaded from memory obey Go's memory-safety invariants:
// references and array ids are below the allocation counter.
func (fx *FnCtx) loadFacts(st *State, pc *Term, v Value) {
	lay := fx.tc.Layout(v.T)
	for i, l := range lay.Leaves {
		if v.L[i].hasBnd || v.L[i].Sort.Kind == SArray {
			continue
		}
		switch l.Kind {
		case "id":
			fx.assume(Implies(pc, fx.tc.IdxLt(v.L[i], st.NAlloc)))
		case "ref":
			// a reference is an allocated object or an embedded object (see embeddedFields)
			fx.assume(Implies(pc, fx.tc.validRef(v.L[i], st.NAlloc)))
		}
		// ground instance of the type-range fact of the loaded leaf
		for _, f := range fx.tc.leafFacts(l, v.L[i]) {
			fx.assume(f)
		}
	}
	for _, l := range v.L {
		if l.hasBnd {
			return
		}
	}
	fx.sliceShape(v, v.T, 0, pc)
}

func (fx *FnCtx) toIdx(v Value, t types.Type) *Term {
	tc := fx.tc
	x := v.L[0]
	if tc.Mode == ModeInt {
		return x
	}
	w, signed, _ := intInfo(t)
	if w == 64 {
		return x
	}
	if signed {
		return BVSignExt(64-w, x)
	}
	return BVZeroExt(64-w, x)
}

func (fx *FnCtx) execIndexAddr(st *State, pc *Term, t *ssa.IndexAddr) {
	tc := fx.tc
	x := fx.val(t.X)
	idx := fx.toIdx(fx.val(t.Index), t.Index.Type())
	switch u := t.X.Type().Underlying().(type) {
	case *types.Slice:
		fx.safety("bounds", pc, And(tc.IdxLe(tc.IdxNum(0), idx), tc.IdxLt(idx, x.L[2])), "slice index in range")
		fx.vals[t] = Value{T: t.Type(), P: &PtrInfo{Kind: PElem, Arr: x.L[0], Idx: tc.IdxAdd(x.L[1], idx), Root: u.Elem(), Typ: u.Elem()}}
	case *types.Pointer:
		at := u.Elem().Underlying().(*types.Array)
		p := fx.asPtr(x)
		fx.nonNil(pc, p, "index of array pointer")
		fx.safety("bounds", pc, And(tc.IdxLe(tc.IdxNum(0), idx), tc.IdxLt(idx, tc.IdxNum(at.Len()))), "array index in range")
		if p.Kind == PElem && p.Idx == nil && len(p.ArrIdx) == 0 {
			fx.vals[t] = Value{T: t.Type(), P: &PtrInfo{Kind: PElem, Arr: p.Arr, Idx: idx, Root: at.Elem(), Typ: at.Elem()}}
			return
		}
		// array embedded in another object: index applies to the array-sorted leaves
		np := *p
		np.ArrIdx = append(append([]*Term(nil), p.ArrIdx...), idx)
		np.Typ = at.Elem()
		// leaves of the element type within the array's leaf range: same offsets
		fx.vals[t] = Value{T: t.Type(), P: &np}
	default:
		fx.fail("IndexAddr on %v", t.X.Type())
	}
}

func (fx *FnCtx) execSlice(st *State, pc *Term, t *ssa.Slice) {
	tc := fx.tc
	x := fx.val(t.X)
	get := func(v ssa.Value) *Term {
		if v == nil {
			return nil
		}
		return fx.toIdx(fx.val(v), v.Type())
	}
	lo, hi, mx := get(t.Low), get(t.High), get(t.Max)
	zero := tc.IdxNum(0)
	switch u := t.X.Type().Underlying().(type) {
	case *types.Slice:
		id, off, ln, cp := x.L[0], x.L[1], x.L[2], x.L[3]
		if lo == nil {
			lo = zero
		}
		if hi == nil {
			hi = ln
		}
		lim := cp
		if mx != nil {
			fx.safety("bounds", pc, And(tc.IdxLe(zero, lo), tc.IdxLe(lo, hi), tc.IdxLe(hi, mx), tc.IdxLe(mx, cp)), "slice bounds in range (3-index)")
			lim = mx
		} else {
			fx.safety("bounds", pc, And(tc.IdxLe(zero, lo), tc.IdxLe(lo, hi), tc.IdxLe(hi, cp)), "slice bounds in range")
		}
		fx.vals[t] = fx.mkSlice(t.Type(), id, tc.IdxAdd(off, lo), tc.IdxSub(hi, lo), tc.IdxSub(lim, lo))
	case *types.Basic: // string
		id, off, ln := x.L[0], x.L[1], x.L[2]
		if lo == nil {
			lo = zero
		}
		if hi == nil {
			hi = ln
		}
		fx.safety("bounds", pc, And(tc.IdxLe(zero, lo), tc.IdxLe(lo, hi), tc.IdxLe(hi, ln)), "string slice bounds in range")
		fx.vals[t] = Value{T: t.Type(), L: []*Term{id, tc.IdxAdd(off, lo), tc.IdxSub(hi, lo)}}
	case *types.Pointer:
		at := u.Elem().Underlying().(*types.Array)
		p := fx.asPtr(x)
		fx.nonNil(pc, p, "slice of array pointer")
		if !(p.Kind == PElem && p.Idx == nil && len(p.ArrIdx) == 0) {
			// an array that is a field of an object: the slice is given a fresh abstract array holding a
			// snapshot of the field's current contents. Sound as long as neither the slice nor the field
			// is written while the other is still read; recorded as an assumption.
			if lay := tc.Layout(at.Elem()); p.Kind == PObj && len(p.ArrIdx) == 0 && len(lay.Leaves) == 1 {
				fx.root.noteOnce("ASSUMED in " + fx.fn.Name() + ": a slice of an array field is a snapshot of the field (no write through one is read through the other)")
				cur := fx.Load(st, p)
				id := fx.newRef(st)
				name := arrHeapName(at.Elem(), lay.Leaves[0])
				h := fx.Heap(st, name, lay.Leaves[0])
				st.Heaps[name] = Store(h, id, cur.L[0])
				p = &PtrInfo{Kind: PElem, Arr: id, Root: at.Elem(), Typ: u.Elem()}
			} else {
				fx.fail("slicing an array embedded in another object is outside the model")
			}
		}
		n := tc.IdxNum(at.Len())
		if lo == nil {
			lo = zero
		}
		if hi == nil {
			hi = n
		}
		lim := n
		if mx != nil {
			fx.safety("bounds", pc, And(tc.IdxLe(zero, lo), tc.IdxLe(lo, hi), tc.IdxLe(hi, mx), tc.IdxLe(mx, n)), "slice bounds in range (3-index)")
			lim = mx
		} else {
			fx.safety("bounds", pc, And(tc.IdxLe(zero, lo), tc.IdxLe(lo, hi), tc.IdxLe(hi, n)), "slice bounds in range")
		}
		fx.vals[t] = fx.mkSlice(t.Type(), p.Arr, lo, tc.IdxSub(hi, lo), tc.IdxSub(lim, lo))
	default:
		fx.fail("Slice on %v", t.X.Type())
	}
}

// ---------------------------------------------------------------------------
// arithmetic

func (fx *FnCtx) overflow(pc *Term, r *Term, t types.Type, what string) {
	if fx.tc.Mode != ModeInt {
		return
	}
	if fx.fc != nil && fx.fc.Wraps {
		return
	}
	fx.safety("overflow", pc, fx.tc.inRange(r, t), what+" does not overflow "+t.String())
}

// wrapIfNeeded reduces r into t's range when the function is declared to wrap.
func (fx *FnCtx) wrapIfNeeded(r *Term, t types.Type) *Term {
	if fx.tc.Mode != ModeInt || fx.fc == nil || !fx.fc.Wraps {
		return r
	}
	return wrapInt(r, t)
}

func wrapInt(r *Term, t types.Type) *Term {
	w, signed, _ := intInfo(t)
	m := IntBig(new(big.Int).Lsh(big.NewInt(1), uint(w)))
	if !signed {
		return IModE(r, m)
	}
	h := IntBig(new(big.Int).Lsh(big.NewInt(1), uint(w-1)))
	return ISub(IModE(IAdd(r, h), m), h)
}

func truncDiv(a, b *Term) *Term {
	// Go's quotient truncates toward zero; SMT div is euclidean.
	if b.IsNum() && b.Val.Sign() > 0 {
		if a.IsNum() {
			return IntBig(new(big.Int).Quo(a.Val, b.Val))
		}
		return Ite(ILe(IntNum(0), a), IDivE(a, b), INeg(IDivE(INeg(a), b)))
	}
	pos := func(x *Term) *Term { return ILe(IntNum(0), x) }
	return Ite(pos(a),
		Ite(pos(b), IDivE(a, b), INeg(IDivE(a, INeg(b)))),
		Ite(pos(b), INeg(IDivE(INeg(a), b)), IDivE(INeg(a), INeg(b))))
}

func (fx *FnCtx) binop(pc *Term, op token.Token, x, y Value, rt, xt, yt types.Type) Value {
	tc := fx.tc
	mk1 := func(t *Term) Value { return Value{T: rt, L: []*Term{t}} }
	// comparisons on non-integers
	if op == token.EQL || op == token.NEQ {
		eq := fx.valuesEqual(x, y, xt, yt)
		if op == token.NEQ {
			eq = Not(eq)
		}
		return mk1(eq)
	}
	if isBoolType(xt) {
		switch op {
		case token.AND, token.LAND:
			return mk1(And(x.L[0], y.L[0]))
		case token.OR, token.LOR:
			return mk1(Or(x.L[0], y.L[0]))
		}
		fx.fail("unsupported boolean op %v", op)
	}
	if isFloatType(xt) {
		if isBoolType(rt) {
			return mk1(Fresh("fcmp", BoolSort))
		}
		return mk1(Fresh("float", tc.IdxSort()))
	}
	if isStringType(xt) {
		switch op {
		case token.ADD:
			fx.fail("string concatenation is outside the model")
		default:
			return mk1(Fresh("strcmp", BoolSort))
		}
	}
	if !isIntType(xt) {
		fx.fail("binop %v on %v", op, xt)
	}
	a, b := x.L[0], y.L[0]
	w, signed, _ := intInfo(xt)
	if tc.Mode == ModeBV {
		switch op {
		case token.ADD:
			return mk1(bvBin("bvadd", a, b))
		case token.SUB:
			return mk1(bvBin("bvsub", a, b))
		case token.MUL:
			return mk1(bvBin("bvmul", a, b))
		case token.QUO:
			fx.safety("div", pc, Not(Eq(b, BVNum(0, w))), "division by zero")
			if signed {
				return mk1(mk("bvsdiv", a.Sort, a, b))
			}
			return mk1(bvBin("bvudiv", a, b))
		case token.REM:
			fx.safety("div", pc, Not(Eq(b, BVNum(0, w))), "division by zero")
			if signed {
				return mk1(mk("bvsrem", a.Sort, a, b))
			}
			return mk1(bvBin("bvurem", a, b))
		case token.AND:
			return mk1(bvBin("bvand", a, b))
		case token.OR:
			return mk1(bvBin("bvor", a, b))
		case token.XOR:
			return mk1(bvBin("bvxor", a, b))
		case token.AND_NOT:
			return mk1(bvBin("bvand", a, BVNot(b)))
		case token.SHL, token.SHR:
			amt := fx.shiftAmount(pc, b, yt, w)
			if op == token.SHL {
				return mk1(bvBin("bvshl", a, amt))
			}
			if signed {
				return mk1(mk("bvashr", a.Sort, a, amt))
			}
			return mk1(bvBin("bvlshr", a, amt))
		case token.LSS, token.LEQ, token.GTR, token.GEQ:
			pre := "bvu"
			if signed {
				pre = "bvs"
			}
			suf := map[token.Token]string{token.LSS: "lt", token.LEQ: "le", token.GTR: "gt", token.GEQ: "ge"}[op]
			return mk1(BVCmp(pre+suf, a, b))
		}
		fx.fail("unsupported bv op %v", op)
	}
	// int mode
	switch op {
	case token.ADD:
		r := IAdd(a, b)
		fx.overflow(pc, r, rt, "addition")
		return mk1(fx.wrapIfNeeded(r, rt))
	case token.SUB:
		r := ISub(a, b)
		fx.overflow(pc, r, rt, "subtraction")
		return mk1(fx.wrapIfNeeded(r, rt))
	case token.MUL:
		r := IMul(a, b)
		fx.overflow(pc, r, rt, "multiplication")
		return mk1(fx.wrapIfNeeded(r, rt))
	case token.QUO:
		fx.safety("div", pc, Not(Eq(b, IntNum(0))), "division by zero")
		r := truncDiv(a, b)
		if signed {
			fx.overflow(pc, r, rt, "division")
		}
		return mk1(r)
	case token.REM:
		fx.safety("div", pc, Not(Eq(b, IntNum(0))), "division by zero")
		return mk1(ISub(a, IMul(b, truncDiv(a, b))))
	case token.LSS:
		return mk1(ILt(a, b))
	case token.LEQ:
		return mk1(ILe(a, b))
	case token.GTR:
		return mk1(ILt(b, a))
	case token.GEQ:
		return mk1(ILe(b, a))
	case token.SHL:
		if b.IsNum() {
			_, ysigned, _ := intInfo(yt)
			_ = ysigned
			k := b.Val.Int64()
			if k >= int64(w) {
				return mk1(IntNum(0))
			}
			r := IMul(a, IntBig(new(big.Int).Lsh(big.NewInt(1), uint(k))))
			fx.overflow(pc, r, rt, "left shift")
			return mk1(fx.wrapIfNeeded(r, rt))
		}
		// symbolic shift: pow2 as uninterpreted function with defining facts for small arguments
		p := fx.pow2(pc, b, yt)
		r := IMul(a, p)
		fx.overflow(pc, r, rt, "left shift")
		return mk1(fx.wrapIfNeeded(r, rt))
	case token.SHR:
		if b.IsNum() {
			k := b.Val.Int64()
			if k >= int64(w) {
				if signed {
					return mk1(Ite(ILt(a, IntNum(0)), IntNum(-1), IntNum(0)))
				}
				return mk1(IntNum(0))
			}
			return mk1(IDivE(a, IntBig(new(big.Int).Lsh(big.NewInt(1), uint(k)))))
		}
		p := fx.pow2(pc, b, yt)
		return mk1(IDivE(a, p))
	case token.AND:
		if m, ok := lowMask(b); ok {
			return mk1(IModE(a, m))
		}
		if m, ok := lowMask(a); ok {
			return mk1(IModE(b, m))
		}
		if r, ok := andConstMask(a, b); ok {
			return mk1(r)
		}
		if r, ok := andConstMask(b, a); ok {
			return mk1(r)
		}
		return mk1(fx.bitUF("bitand", a, b, rt))
	case token.OR:
		if r, ok := fx.disjointOr(x, y, xt); ok {
			return mk1(r)
		}
		return mk1(fx.bitUF("bitor", a, b, rt))
	case token.XOR:
		return mk1(fx.bitUF("bitxor", a, b, rt))
	case token.AND_NOT:
		return mk1(fx.bitUF("bitandnot", a, b, rt))
	}
	fx.fail("unsupported int op %v", op)
	return Value{}
}

// andConstMask: x & m for a constant m with few one bits, exactly, in mathematical integers
// (x non-negative or two's complement; div/mod are floor/euclidean so this is right for both).
func andConstMask(x, m *Term) (*Term, bool) {
	if !m.IsNum() || m.Val.Sign() < 0 || m.Val.BitLen() > 64 {
		return nil, false
	}
	bits := 0
	for b := 0; b < m.Val.BitLen(); b++ {
		if m.Val.Bit(b) == 1 {
			bits++
		}
	}
	if bits == 0 {
		return IntNum(0), true
	}
	if bits > 6 {
		return nil, false
	}
	// maximal runs of one bits: [lo,hi) contributes ((x div 2^lo) mod 2^(hi-lo)) * 2^lo
	var sum *Term
	b := 0
	for b < m.Val.BitLen() {
		if m.Val.Bit(b) == 0 {
			b++
			continue
		}
		lo := b
		for b < m.Val.BitLen() && m.Val.Bit(b) == 1 {
			b++
		}
		p := IntBig(new(big.Int).Lsh(big.NewInt(1), uint(lo)))
		w := IntBig(new(big.Int).Lsh(big.NewInt(1), uint(b-lo)))
		part := IMul(IModE(IDivE(x, p), w), p)
		if sum == nil {
			sum = part
		} else {
			sum = IAdd(sum, part)
		}
	}
	return sum, true
}

func lowMask(t *Term) (*Term, bool) {
	if !t.IsNum() || t.Val.Sign() <= 0 {
		return nil, false
	}
	p := new(big.Int).Add(t.Val, big.NewInt(1))
	if new(big.Int).And(p, t.Val).Sign() == 0 {
		return IntBig(p), true
	}
	return nil, false
}

// disjointOr recognises (hi << k) | lo with 0 <= lo < 2^k and turns it into a sum.
func (fx *FnCtx) disjointOr(x, y Value, t types.Type) (*Term, bool) {
	try := func(hi, lo *Term) (*Term, bool) {
		if hi.Op == "*" && hi.Args[1].IsNum() {
			k := hi.Args[1].Val
			if new(big.Int).And(k, new(big.Int).Sub(k, big.NewInt(1))).Sign() == 0 {
				if b, ok := fx.boundOf(lo); ok && b.Cmp(k) <= 0 {
					return IAdd(hi, lo), true
				}
			}
		}
		return nil, false
	}
	if r, ok := try(x.L[0], y.L[0]); ok {
		return r, true
	}
	return try(y.L[0], x.L[0])
}

// boundOf returns an exclusive upper bound of a non-negative term when known from
// how it was built (conversion from a narrow unsigned type is tracked by tags).
func (fx *FnCtx) boundOf(t *Term) (*big.Int, bool) {
	if b, ok := fx.V.bounds[t]; ok {
		return b, true
	}
	if t.IsNum() && t.Val.Sign() >= 0 {
		return new(big.Int).Add(t.Val, big.NewInt(1)), true
	}
	if t.Op == "mod" && t.Args[1].IsNum() {
		return t.Args[1].Val, true
	}
	return nil, false
}

func (fx *FnCtx) bitUF(name string, a, b *Term, t types.Type) *Term {
	f := DeclareUF(name, []*Sort{IntSort, IntSort}, IntSort)
	r := f.App(a, b)
	_, signed, _ := intInfo(t)
	if !signed {
		switch name {
		case "bitand":
			fx.assume(And(ILe(IntNum(0), r), ILe(r, a), ILe(r, b)))
		case "bitor":
			fx.assume(And(ILe(a, r), ILe(b, r), ILe(r, IAdd(a, b))))
		case "bitxor", "bitandnot":
			fx.assume(And(ILe(IntNum(0), r), ILe(r, IAdd(a, b))))
		}
	}
	fx.assume(fx.tc.inRange(r, t))
	return r
}

func (fx *FnCtx) pow2(pc *Term, b *Term, yt types.Type) *Term {
	f := DeclareUF("pow2", []*Sort{IntSort}, IntSort)
	r := f.App(b)
	if !fx.root.heapAxiomDone[r] {
		fx.root.heapAxiomDone[r] = true
		for k := 0; k <= 64; k++ {
			fx.root.axioms = append(fx.root.axioms, Eq(f.App(IntNum(int64(k))), IntBig(new(big.Int).Lsh(big.NewInt(1), uint(k)))))
		}
	}
	fx.safety("shift", pc, And(ILe(IntNum(0), b), ILe(b, IntNum(64))), "shift count within 0..64 (int-mode model of symbolic shifts)")
	return r
}

func (fx *FnCtx) shiftAmount(pc *Term, b *Term, yt types.Type, w int) *Term {
	wy, ysigned, _ := intInfo(yt)
	if ysigned {
		fx.safety("shift", pc, BVCmp("bvsge", b, BVNum(0, wy)), "shift count non-negative")
	}
	switch {
	case wy == w:
		return b
	case wy < w:
		return BVZeroExt(w-wy, b)
	default:
		big := BVCmp("bvuge", b, BVNum(int64(w), wy))
		return Ite(big, BVNum(int64(w), w), BVExtract(w-1, 0, b))
	}
}

func (fx *FnCtx) valuesEqual(x, y Value, xt, yt types.Type) *Term {
	tc := fx.tc
	if x.P != nil || y.P != nil {
		if x.P != nil && y.P != nil {
			if samePtr(x.P, y.P) {
				return True
			}
			if x.P.Kind == PObj && y.P.Kind == PObj {
				return Eq(x.P.Ref, y.P.Ref)
			}
		}
		// pointer vs nil constant
		nilSide := func(v Value) bool {
			return v.P == nil && len(v.L) == 1 && v.L[0].IsNum() && v.L[0].Val.Sign() == 0
		}
		if x.P != nil && nilSide(y) {
			return fx.ptrIsNil(x.P)
		}
		if y.P != nil && nilSide(x) {
			return fx.ptrIsNil(y.P)
		}
		if x.P != nil && y.P == nil && x.P.Kind == PObj && x.P.Off == 0 {
			return Eq(x.P.Ref, y.L[0])
		}
		if y.P != nil && x.P == nil && y.P.Kind == PObj && y.P.Off == 0 {
			return Eq(y.P.Ref, x.L[0])
		}
		fx.fail("comparison of engine-level pointers")
	}
	switch u := xt.Underlying().(type) {
	case *types.Slice:
		// only comparison with nil is legal Go
		_ = u
		if len(y.L) == 4 && len(x.L) == 4 {
			// one side is the nil constant (all zero)
			return Eq(x.L[0], y.L[0])
		}
	case *types.Interface:
		// an interface value is nil exactly when its dynamic type is absent
		isNil := func(v Value) bool {
			return v.L[0].IsNum() && v.L[0].Val.Sign() == 0 && v.L[1].IsNum() && v.L[1].Val.Sign() == 0
		}
		if isNil(y) {
			return Eq(x.L[0], y.L[0])
		}
		if isNil(x) {
			return Eq(y.L[0], x.L[0])
		}
		return And(Eq(x.L[0], y.L[0]), Eq(x.L[1], y.L[1]))
	case *types.Basic:
		if u.Info()&types.IsString != 0 {
			return fx.stringsEqual(x, y)
		}
	}
	if len(x.L) != len(y.L) {
		fx.fail("comparison of values with different layouts %v %v", xt, yt)
	}
	var cs []*Term
	lay := tc.Layout(xt)
	for i := range x.L {
		if lay.Leaves[i].Kind == "float" {
			cs = append(cs, Fresh("fcmp", BoolSort))
			continue
		}
		cs = append(cs, Eq(x.L[i], y.L[i]))
	}
	return And(cs...)
}

func (fx *FnCtx) ptrIsNil(p *PtrInfo) *Term {
	switch p.Kind {
	case PObj:
		if p.Off == 0 {
			return Eq(p.Ref, fx.tc.IdxNum(0))
		}
		return False
	default:
		return False
	}
}

// stringsEqual: equal lengths and bytes. Constant strings compare byte by byte.
func (fx *FnCtx) stringsEqual(x, y Value) *Term {
	if x.L[2].IsNum() && y.L[2].IsNum() && x.L[2].Val.Cmp(y.L[2].Val) != 0 {
		return False
	}
	if x.L[0] == y.L[0] && x.L[1] == y.L[1] && x.L[2] == y.L[2] {
		return True
	}
	// strings are immutable: (array, offset, length) determines the content, whose identity is the
	// uninterpreted key strKey; equal strings have equal keys and equal keys mean equal lengths
	kx, ky := fx.strKey(x), fx.strKey(y)
	if kx.IsNum() && ky.IsNum() {
		return Bool(kx.Val.Cmp(ky.Val) == 0)
	}
	r := Eq(kx, ky)
	if !r.hasBnd && !x.L[2].hasBnd && !y.L[2].hasBnd {
		fx.assume(Implies(r, Eq(x.L[2], y.L[2])))
	}
	return r
}

// strKey: the content identity of a string value. Constant strings get distinct numerals.
func (fx *FnCtx) strKey(x Value) *Term {
	tc := fx.tc
	if x.L[2].IsNum() && x.L[2].Val.Sign() == 0 {
		return tc.IdxNum(0) // the empty string, whatever its array
	}
	if x.L[0].Op == "sym" && strings.HasPrefix(x.L[0].Name, "str_") && x.L[1].IsNum() && x.L[1].Val.Sign() == 0 && x.L[2].IsNum() {
		// a whole string constant: key = index in the table of constants seen (stable within one run)
		k, ok := fx.V.strConsts[x.L[0].Name]
		if !ok {
			k = len(fx.V.strConsts) + 1
			fx.V.strConsts[x.L[0].Name] = k
		}
		return tc.IdxNum(int64(k))
	}
	f := DeclareUF("strkey_"+tc.Mode.String(), []*Sort{tc.IdxSort(), tc.IdxSort(), tc.IdxSort()}, tc.IdxSort())
	k := f.App(x.L[0], x.L[1], x.L[2])
	// keys of non-constant strings lie above the table of constants unless they equal one of them:
	// nothing is assumed beyond functionality (same triple, same key)
	return k
}

func (fx *FnCtx) convert(st *State, pc *Term, x Value, from, to types.Type) Value {
	tc := fx.tc
	switch {
	case isIntType(from) && isIntType(to):
		return Value{T: to, L: []*Term{fx.convInt(pc, x.L[0], from, to, true)}}
	case isFloatType(to) || isFloatType(from):
		if isIntType(to) {
			v, facts := tc.FreshValue(to, "f2i")
			for _, f := range facts {
				fx.assume(f)
			}
			return v
		}
		return Value{T: to, L: []*Term{Fresh("float", tc.IdxSort())}}
	case isStringType(to) && isSliceOfBytes(from):
		// string(b): a copy; model as a fresh immutable array with the same contents
		return fx.bytesToString(st, pc, x, to)
	case isSliceOfBytes(to) && isStringType(from):
		return fx.stringToBytes(st, pc, x, to)
	case isStringType(to) && isIntType(from):
		v, _ := tc.FreshValue(to, "runestr")
		fx.assume(Implies(pc, And(tc.IdxLe(tc.IdxNum(1), v.L[2]), tc.IdxLe(v.L[2], tc.IdxNum(4)))))
		return v
	}
	// pointer <-> unsafe.Pointer and other representation-preserving conversions
	if len(tc.Layout(from).Leaves) == len(tc.Layout(to).Leaves) && x.P == nil {
		x.T = to
		return x
	}
	// &local -> unsafe.Pointer -> *T2 where T2 has the representation of the local's type (e.g. []byte
	// viewed as []Doublet): the pointer is kept and re-typed. Element contents seen through the two
	// views live in different heaps and are therefore unrelated (over-approximation; listed as an
	// assumption wherever a function using it is claimed).
	if x.P != nil {
		if b, ok := to.Underlying().(*types.Basic); ok && b.Kind() == types.UnsafePointer {
			return Value{T: to, P: x.P}
		}
		if b, ok := from.Underlying().(*types.Basic); ok && b.Kind() == types.UnsafePointer {
			if pt, ok := to.Underlying().(*types.Pointer); ok {
				la, lb := tc.Layout(x.P.Typ).Leaves, tc.Layout(pt.Elem()).Leaves
				same := len(la) == len(lb)
				for i := 0; same && i < len(la); i++ {
					same = la[i].Kind == lb[i].Kind && la[i].Sort == lb[i].Sort
				}
				if same {
					np := *x.P
					np.Typ = pt.Elem()
					return Value{T: to, P: &np}
				}
			}
		}
	}
	fx.fail("unsupported conversion %v -> %v", from, to)
	return Value{}
}

func isSliceOfBytes(t types.Type) bool {
	s, ok := t.Underlying().(*types.Slice)
	if !ok {
		return false
	}
	b, ok := s.Elem().Underlying().(*types.Basic)
	return ok && b.Kind() == types.Uint8
}

func (fx *FnCtx) bytesToString(st *State, pc *Term, x Value, to types.Type) Value {
	tc := fx.tc
	id := fx.newRef(st)
	el := types.Typ[types.Uint8]
	fx.copyElemsFresh(st, pc, el, id, x.L[0], x.L[1], x.L[2])
	return Value{T: to, L: []*Term{id, tc.IdxNum(0), x.L[2]}}
}

func (fx *FnCtx) stringToBytes(st *State, pc *Term, x Value, to types.Type) Value {
	tc := fx.tc
	id := fx.newRef(st)
	el := types.Typ[types.Uint8]
	fx.copyElemsFresh(st, pc, el, id, x.L[0], x.L[1], x.L[2])
	return Value{T: to, L: []*Term{id, tc.IdxNum(0), x.L[2], x.L[2]}}
}

// copyElemsFresh initialises fresh array dst[0..n) from src[srcStart..srcStart+n).
func (fx *FnCtx) copyElemsFresh(st *State, pc *Term, elem types.Type, dst, src, srcStart, n *Term) {
	fx.copyElems(st, pc, elem, dst, fx.tc.IdxNum(0), src, srcStart, n)
}

func (fx *FnCtx) convInt(pc *Term, x *Term, from, to types.Type, checked bool) *Term {
	tc := fx.tc
	wf, sf, _ := intInfo(from)
	wt, st2, _ := intInfo(to)
	if tc.Mode == ModeBV {
		switch {
		case wt == wf:
			return x
		case wt < wf:
			return BVExtract(wt-1, 0, x)
		default:
			if sf {
				return BVSignExt(wt-wf, x)
			}
			return BVZeroExt(wt-wf, x)
		}
	}
	// int mode: value-preserving when the target range contains the source range
	lof, hif := typeRange(from)
	lot, hit := typeRange(to)
	_ = st2
	if lot.Cmp(lof) <= 0 && hif.Cmp(hit) <= 0 {
		if !sf && wf < 64 {
			fx.V.bounds[x] = new(big.Int).Lsh(big.NewInt(1), uint(wf))
		}
		return x
	}
	// narrowing or sign change: Go wraps silently. Model the wrap exactly.
	r := wrapInt(x, to)
	return r
}

var initOnlyErrCache = map[*ssa.Global]bool{}

// initOnlyError: the package-level error variable is assigned exactly once, in the package
// initialiser, from errors.New or fmt.Errorf, and nowhere else in its package: it is non-nil, distinct
// from every other such variable, and constant.
func (v *Verifier) initOnlyError(g *ssa.Global) bool {
	if r, ok := initOnlyErrCache[g]; ok {
		return r
	}
	res := false
	defer func() { initOnlyErrCache[g] = res }()
	if g.Pkg == nil {
		return false
	}
	stores := 0
	good := true
	var visit func(f *ssa.Function)
	seen := map[*ssa.Function]bool{}
	visit = func(f *ssa.Function) {
		if f == nil || seen[f] {
			return
		}
		seen[f] = true
		for _, b := range f.Blocks {
			for _, ins := range b.Instrs {
				for _, op := range ins.Operands(nil) {
					if *op != ssa.Value(g) {
						continue
					}
					switch t := ins.(type) {
					case *ssa.Store:
						if t.Addr != ssa.Value(g) {
							good = false // the address escapes into a store
							continue
						}
						stores++
						isInit := f.Name() == "init" || strings.HasPrefix(f.Name(), "init#")
						call, isCall := t.Val.(*ssa.Call)
						if !isInit || !isCall {
							good = false
							continue
						}
						callee, _ := call.Call.Value.(*ssa.Function)
						if callee == nil || callee.Pkg == nil {
							good = false
							continue
						}
						k := callee.Pkg.Pkg.Path() + "." + callee.Name()
						if k != "errors.New" && k != "fmt.Errorf" {
							good = false
						}
					case *ssa.UnOp, *ssa.DebugRef:
					default:
						good = false
					}
				}
			}
		}
		for _, a := range f.AnonFuncs {
			visit(a)
		}
	}
	for _, m := range g.Pkg.Members {
		switch f := m.(type) {
		case *ssa.Function:
			visit(f)
		case *ssa.Type:
			for _, t := range []types.Type{f.Type(), types.NewPointer(f.Type())} {
				ms := v.prog.MethodSets.MethodSet(t)
				for i := 0; i < ms.Len(); i++ {
					visit(v.prog.MethodValue(ms.At(i)))
				}
			}
		}
	}
	res = good && stores == 1
	return res
}
