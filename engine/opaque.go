package main

// Opaque spec functions: encoded as an uninterpreted function with a
// definitional axiom (pattern: the application) plus a ground definitional
// instance for every application whose arguments are ground. This gives the
// solvers triggers for quantified invariants over pure arithmetic.
//
// An "entrystate" opaque function may read memory; it always reads the memory
// of the function's entry state (whose heap symbols are constants), wherever
// it is applied.

import (
	"go/types"
)

func (fx *FnCtx) opaqueCall(x *SCall, sf *SpecFunc, sub *Env, spkg *types.Package, rtyp types.Type, argTerms []*Term, argSorts []*Sort) SV {
	tc := fx.tc
	lay := tc.Layout(rtyp)
	if len(lay.Leaves) != 1 {
		fx.specFail(x, "opaque spec function %s must return a scalar", sf.Name)
	}
	entrySt := fx.root.entry
	if entrySt == nil {
		entrySt = fx.entry
	}
	f := DeclareUF("sf_"+tc.Mode.String()+"_"+sf.Name, argSorts, lay.Leaves[0].Sort)
	app := f.App(argTerms...)
	marker := Sym("opq$"+f.Name, BoolSort)
	if !fx.root.heapAxiomDone[marker] {
		fx.root.heapAxiomDone[marker] = true
		env2 := &Env{fx: fx, st: entrySt, vars: map[string]SV{}, pkg: spkg, depth: sub.depth, lookup: sub.lookup}
		var bvs []*Term
		guard := True
		for _, p := range sf.Params {
			pt := fx.resolveType(p.Type, spkg)
			val := Value{T: pt}
			for _, lf := range tc.Layout(pt).Leaves {
				b := BoundVar(p.Name+lf.Path, lf.Sort)
				bvs = append(bvs, b)
				val.L = append(val.L, b)
			}
			env2.vars[p.Name] = SV{V: val}
		}
		save := fx.pureEval
		fx.pureEval = !sf.EntryState
		env2.hint = rtyp
		body := fx.evalSpec(env2, sf.Body)
		fx.pureEval = save
		if body.Untyped {
			body = fx.typed(body, rtyp)
		}
		if len(body.V.L) != 1 || body.V.L[0].Sort != lay.Leaves[0].Sort {
			fx.specFail(x, "body of opaque %s does not have the declared type", sf.Name)
		}
		lhs := f.App(bvs...)
		if bt := body.V.L[0]; bt.Op == "exists" && lhs.Sort == BoolSort {
			// f(x) <=> exists i. g(x,i) is given as two clauses, so that the introduction direction
			// has the pattern {f(x), terms of g}: forall x,i. g(x,i) => f(x)  and  forall x. f(x) => exists i. g(x,i)
			all := append(append([]*Term{}, bvs...), bt.Bound...)
			if len(bvs) == 0 {
				fx.root.axioms = append(fx.root.axioms, Forall(bt.Bound, Implies(bt.Args[0], lhs)), Implies(lhs, bt))
			} else {
				fx.root.axioms = append(fx.root.axioms, Forall(all, Implies(bt.Args[0], lhs)), Forall(bvs, Implies(lhs, bt), []*Term{lhs}))
			}
		} else if len(bvs) == 0 {
			fx.root.axioms = append(fx.root.axioms, Eq(lhs, body.V.L[0]))
		} else {
			fx.root.axioms = append(fx.root.axioms, Forall(bvs, Implies(guard, Eq(lhs, body.V.L[0])), []*Term{lhs}))
		}
	}
	ground := true
	for _, a := range argTerms {
		if a.hasBnd {
			ground = false
		}
	}
	// ground definitional instances are not nested: a recursive definition is unfolded once per
	// application written in a contract or reached by one unfolding, never transitively
	if ground && !fx.root.heapAxiomDone[app] && fx.opaqueDepth < 2 {
		fx.root.heapAxiomDone[app] = true
		fx.opaqueDepth++
		defer func() { fx.opaqueDepth-- }()
		save := fx.pureEval
		fx.pureEval = !sf.EntryState
		saveSt := sub.st
		if sf.EntryState {
			sub.st = entrySt
		}
		sub.hint = rtyp
		body := fx.evalSpec(sub, sf.Body)
		sub.st = saveSt
		fx.pureEval = save
		if body.Untyped {
			body = fx.typed(body, rtyp)
		}
		// definitional: holds unconditionally (quantified bodies are covered by the axioms above)
		if !hasQuant(body.V.L[0]) {
			fx.root.axioms = append(fx.root.axioms, Eq(app, body.V.L[0]))
		}
	}
	return SV{V: Value{T: rtyp, L: []*Term{app}}}
}
