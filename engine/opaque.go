package main

// Opaque spec functions: encoded as an uninterpreted function with a
// definitional axiom (pattern: the application) plus a ground definitional
// instance for every application whose arguments are ground. This gives the
// solvers triggers for quantified invariants over pure arithmetic.

import (
	"go/types"
)

func (fx *FnCtx) opaqueCall(x *SCall, sf *SpecFunc, sub *Env, spkg *types.Package, rtyp types.Type, argTerms []*Term, argSorts []*Sort) SV {
	tc := fx.tc
	lay := tc.Layout(rtyp)
	if len(lay.Leaves) != 1 {
		fx.specFail(x, "opaque spec function %s must return a scalar", sf.Name)
	}
	f := DeclareUF("sf_"+tc.Mode.String()+"_"+sf.Name, argSorts, lay.Leaves[0].Sort)
	app := f.App(argTerms...)
	marker := Sym("opq$"+f.Name, BoolSort)
	if !fx.root.heapAxiomDone[marker] {
		fx.root.heapAxiomDone[marker] = true
		env2 := &Env{fx: fx, st: fx.entry, vars: map[string]SV{}, pkg: spkg, depth: sub.depth}
		var bvs []*Term
		for _, p := range sf.Params {
			pt := fx.resolveType(p.Type, spkg)
			val := Value{T: pt}
			for _, lf := range tc.Layout(pt).Leaves {
				b := BoundVar(p.Name+lf.Path, lf.Sort)
				bvs = append(bvs, b)
				val.L = append(val.L, b)
			}
			env2.vars[p.Name] = SV{V: val}
		}
		save := fx.pureEval
		fx.pureEval = true
		env2.hint = rtyp
		body := fx.evalSpec(env2, sf.Body)
		fx.pureEval = save
		if body.Untyped {
			body = fx.typed(body, rtyp)
		}
		if len(body.V.L) != 1 || body.V.L[0].Sort != lay.Leaves[0].Sort {
			fx.specFail(x, "body of opaque %s does not have the declared type", sf.Name)
		}
		lhs := f.App(bvs...)
		fx.root.axioms = append(fx.root.axioms, Forall(bvs, Eq(lhs, body.V.L[0]), []*Term{lhs}))
	}
	ground := true
	for _, a := range argTerms {
		if a.hasBnd {
			ground = false
		}
	}
	if ground && !fx.root.heapAxiomDone[app] {
		fx.root.heapAxiomDone[app] = true
		save := fx.pureEval
		fx.pureEval = true
		sub.hint = rtyp
		body := fx.evalSpec(sub, sf.Body)
		fx.pureEval = save
		if body.Untyped {
			body = fx.typed(body, rtyp)
		}
		// definitional: holds unconditionally
		fx.root.axioms = append(fx.root.axioms, Eq(app, body.V.L[0]))
	}
	return SV{V: Value{T: rtyp, L: []*Term{app}}}
}
