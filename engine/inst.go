package main

// Ground instantiation of bounded quantified hypotheses ("inst" variant).
//
// The solvers' E-matching does not find the instance of `forall k :: ... a[off+k] ...` for a ground
// read a[off+i+1]: the sum is flattened and no longer matches the pattern (+ off k). Here the match
// is made modulo linear arithmetic: for a ground read at index G and a read at (OFF + k) in the
// body, the instance k := G - OFF is added as a quantifier-free hypothesis. Instances of
// hypotheses are consequences of them, so a proof from the instances is a proof.

func sub(a, b *Term) *Term {
	if a.Sort.Kind == SBV {
		if b.IsNum() && b.Val.Sign() == 0 {
			return a
		}
		return bvBin("bvsub", a, b)
	}
	return ISub(a, b)
}

// groundReadIndices collects the index terms of array reads in t that have no bound variable.
func groundReadIndices(t *Term, out map[*Term]bool, seen map[*Term]bool) {
	if seen[t] {
		return
	}
	seen[t] = true
	if t.Op == "forall" || t.Op == "exists" {
		return
	}
	if t.Op == "select" && len(t.Args) == 2 && !t.Args[1].hasBnd && !t.Args[1].IsNum() &&
		(t.Args[1].Sort.Kind == SInt || t.Args[1].Sort.Kind == SBV) {
		out[t.Args[1]] = true
	}
	for _, a := range t.Args {
		groundReadIndices(a, out, seen)
	}
}

// readOffsets finds, in a quantifier body, the reads whose index is k or OFF+k with OFF free of
// bound variables, and returns the OFF terms (nil for a bare k).
func readOffsets(t *Term, k *Term, out map[*Term]bool, bare *bool, seen map[*Term]bool) {
	if seen[t] || !t.hasBnd {
		return
	}
	seen[t] = true
	if t.Op == "select" && len(t.Args) == 2 {
		ix := t.Args[1]
		if ix == k {
			*bare = true
		} else if (ix.Op == "+" || ix.Op == "bvadd") && len(ix.Args) == 2 {
			if ix.Args[0] == k && !ix.Args[1].hasBnd {
				out[ix.Args[1]] = true
			} else if ix.Args[1] == k && !ix.Args[0].hasBnd {
				out[ix.Args[0]] = true
			}
		}
	}
	for _, a := range t.Args {
		readOffsets(a, k, out, bare, seen)
	}
}

// instances returns quantifier-free instances of hypothesis h at the given ground read indices.
func instances(h *Term, grounds []*Term, max int) []*Term {
	var guards []*Term
	q := h
	for q.Op == "=>" && len(q.Args) == 2 && !hasQuant(q.Args[0]) {
		guards = append(guards, q.Args[0])
		q = q.Args[1]
	}
	if q.Op != "forall" || len(q.Bound) != 1 || len(q.Args) != 1 || hasQuant(q.Args[0]) {
		return nil
	}
	k := q.Bound[0]
	if k.Sort.Kind != SInt && k.Sort.Kind != SBV {
		return nil
	}
	offs := map[*Term]bool{}
	bare := false
	readOffsets(q.Args[0], k, offs, &bare, map[*Term]bool{})
	var insts []*Term
	done := map[*Term]bool{}
	add := func(v *Term) {
		if done[v] || len(insts) >= max || v.Sort != k.Sort {
			return
		}
		done[v] = true
		b := Subst(q.Args[0], map[*Term]*Term{k: v})
		for i := len(guards) - 1; i >= 0; i-- {
			b = Implies(guards[i], b)
		}
		insts = append(insts, b)
	}
	for _, g := range grounds {
		if g.Sort != k.Sort {
			continue
		}
		if bare {
			add(g)
		}
		for off := range offs {
			if off.Sort == g.Sort {
				add(sub(g, off))
			}
		}
	}
	return insts
}

// skolemize replaces the universal quantifiers in positive positions of a goal by fresh constants:
// not (forall k :: P(k)) is satisfiable exactly when not P(c) is, for a fresh c. The reads of the
// goal then are ground terms, at which the hypotheses can be instantiated.
func skolemize(t *Term) *Term {
	switch t.Op {
	case "forall":
		m := map[*Term]*Term{}
		for _, b := range t.Bound {
			m[b] = Fresh("sk_"+b.Name, b.Sort)
		}
		return skolemize(Subst(t.Args[0], m))
	case "and":
		args := make([]*Term, len(t.Args))
		for i, a := range t.Args {
			args[i] = skolemize(a)
		}
		return And(args...)
	case "or":
		args := make([]*Term, len(t.Args))
		for i, a := range t.Args {
			args[i] = skolemize(a)
		}
		return Or(args...)
	case "=>":
		return Implies(t.Args[0], skolemize(t.Args[1]))
	}
	return t
}
