package main

// Contract files: comment-only Go files (zz_contracts_verif.go, build tag verif)
// whose //@ lines carry the contracts. This file parses them.

import (
	"fmt"
	"os"
	"regexp"
	"strconv"
	"strings"
)

type Clause struct {
	Kind  string // requires ensures invariant decreases lemma assert
	Props []string
	Label string
	Deps  []string // labels of other invariant clauses this clause's proof uses (hypothesis selection hint)
	Expr  SpecExpr
	Src   string
	File  string
	Line  int
	used  int // number of obligations/assumptions generated from it
}

type GhostDecl struct {
	Name string
	Type string
	Init SpecExpr
}

type LoopSpec struct {
	Ord        int
	Invariants []*Clause
	Assumes    []*Clause
	Decreases  *Clause
	Unroll     int // exact unrolling of constant-trip loops
	Bounded    bool // bounded instance search: iterations beyond Unroll are cut off, not checked
	Line       int
}

type Param struct{ Name, Type string }

type FuncContract struct {
	Pkg      string // import path
	Name     string // Func, Type.Method, Outer$1
	Mode     string // "bv" | "int"
	Props    []string
	Requires []*Clause
	Ensures  []*Clause
	Modifies []SpecExpr
	ModSrc   []string
	Loops    map[int]*LoopSpec
	Inline   bool
	Trusted  bool // contract assumed, body not verified (dependency or out of subset)
	Pure     bool
	Nullable map[string]bool
	MayAlias bool
	Panics   []*Clause // panics when <cond>: explicit panic permitted under cond
	Wraps    bool      // arithmetic intentionally wraps (int mode: no overflow obligations)
	Decoder  bool      // C11: inputs unconstrained, termination mandatory
	IgnoreChan bool    // channel sends are no-ops (explicit assumption)
	NameMerges bool              // a heap that differs between the paths meeting at a join gets a fresh name there (defined by an equation)
	PerReturn  bool              // postconditions are evaluated on the state of each return statement separately (not on the merged exit state)
	AssumePre  map[string]string // callees whose preconditions are assumed, not checked, in this function ("*": all, else the label of the one assumed)
	Abstract []string  // abstracted instruction patterns
	Ghost    []GhostDecl
	GhostAt  []*GhostAt
	LocalSpecs map[string]*SpecFunc
	File     string
	Line     int
	// for trusted externals: explicit signature
	Sig string
	// results naming for ensures on trusted funcs
	NoOverflow bool
	Terminates bool
	AnyMode    bool
	Uses       []string
	Extra      map[string]string
}

type SpecFunc struct {
	Pkg    string
	Name   string
	Params []Param
	Ret    string
	Body   SpecExpr
	Src    string
	Uninterp bool
	Opaque   bool
	EntryState bool
	Local    bool
	Macro    bool // function-local abbreviation expanded in the environment of its use (locals and current memory visible)
	Line   int
}

type Lemma struct {
	Pkg   string
	Name  string
	Mode  string
	Props []string
	Expr  SpecExpr
	Src   string
	Line  int
	File  string
}

type TypeInv struct {
	Pkg  string
	Type string
	Expr SpecExpr
	Src  string
}

type Contracts struct {
	Funcs  map[string]*FuncContract // key pkgpath + "." + name
	Specs  map[string]*SpecFunc     // key pkgpath + "." + name, falls back to name
	Lemmas []*Lemma
	Axioms []*Lemma
	Files  []string
	Assumptions []string // trusted/abstract/etc. scan results
	dupTrusted  [][2]*FuncContract
	Tables      map[string]bool // "pkgpath.name" of package-level tables
	Embedded    []string        // "pkgpath.Type.field": struct fields modelled as objects of their own
	GhostFields map[string]bool // ghostfield NAME: an integer ghost field of objects, read as NAME(x)
}

// CheckDuplicates verifies that repeated trusted contracts carry the same clauses.
func (cs *Contracts) CheckDuplicates() error {
	text := func(fc *FuncContract) string {
		var sb strings.Builder
		for _, c := range fc.Requires {
			sb.WriteString("R:" + c.Expr.String() + ";")
		}
		for _, c := range fc.Ensures {
			sb.WriteString("E:" + c.Expr.String() + ";")
		}
		sb.WriteString(strings.Join(fc.ModSrc, ","))
		return sb.String()
	}
	for _, p := range cs.dupTrusted {
		if text(p[0]) != text(p[1]) {
			return fmt.Errorf("trusted contract for %s.%s differs between %s:%d and %s:%d", p[0].Pkg, p[0].Name, p[0].File, p[0].Line, p[1].File, p[1].Line)
		}
	}
	return nil
}

func NewContracts() *Contracts {
	return &Contracts{Funcs: map[string]*FuncContract{}, Specs: map[string]*SpecFunc{}, Tables: map[string]bool{}}
}

var clauseKW = map[string]bool{
	"func": true, "spec": true, "lemma": true, "axiom": true, "trusted": true, "mode": true, "props": true,
	"requires": true, "ensures": true, "modifies": true, "loop": true, "inline": true,
	"pure": true, "nullable": true, "may_alias": true, "panics": true, "wraps": true,
	"decoder": true, "abstract": true, "ghost": true, "terminates": true, "uninterp": true, "at": true, "opaque": true, "def": true, "macro": true, "returns": true, "merges": true, "table": true, "anymode": true, "uses": true, "embedded": true, "ghostfield": true, "channels": true, "assumes": true,
}

var reTag = regexp.MustCompile(`^(\w+)\[([A-Z0-9, ]+)\]`)

// ParseContractFile reads one contract file for package pkgPath.
func (cs *Contracts) ParseContractFile(path, pkgPath string) error {
	data, err := os.ReadFile(path)
	if err != nil {
		return err
	}
	cs.Files = append(cs.Files, path)
	type lline struct {
		text string
		line int
	}
	var logical []lline
	for i, raw := range strings.Split(string(data), "\n") {
		s := strings.TrimSpace(raw)
		if !strings.HasPrefix(s, "//@") {
			continue
		}
		s = strings.TrimPrefix(s, "//@")
		// strip trailing comment
		if k := strings.Index(s, "//"); k >= 0 {
			s = s[:k]
		}
		if strings.TrimSpace(s) == "" {
			continue
		}
		first := strings.Fields(s)[0]
		kw := first
		if m := reTag.FindStringSubmatch(first); m != nil {
			kw = m[1]
		}
		if k := strings.IndexAny(kw, "[("); k > 0 {
			kw = kw[:k]
		}
		if clauseKW[kw] {
			logical = append(logical, lline{strings.TrimSpace(s), i + 1})
		} else {
			if len(logical) == 0 {
				return fmt.Errorf("%s:%d: continuation without clause", path, i+1)
			}
			logical[len(logical)-1].text += " " + strings.TrimSpace(s)
		}
	}
	var cur *FuncContract
	for _, ll := range logical {
		fail := func(f string, a ...interface{}) error {
			return fmt.Errorf("%s:%d: %s", path, ll.line, fmt.Sprintf(f, a...))
		}
		text := ll.text
		var props []string
		kw := strings.Fields(text)[0]
		rest := strings.TrimSpace(text[len(kw):])
		if m := reTag.FindStringSubmatch(kw); m != nil {
			for _, p := range strings.Split(m[2], ",") {
				props = append(props, strings.TrimSpace(p))
			}
			kw = m[1]
		}
		label := ""
		if strings.HasPrefix(rest, "@") {
			f := strings.Fields(rest)[0]
			label = f[1:]
			rest = strings.TrimSpace(rest[len(f):])
		}
		mkClause := func(kind string) (*Clause, error) {
			e, err := ParseSpec(rest)
			if err != nil {
				return nil, fail("%v", err)
			}
			var deps []string
			if k := strings.Index(label, ":"); k >= 0 {
				deps = strings.Split(label[k+1:], ",")
				label = label[:k]
			}
			return &Clause{Kind: kind, Props: props, Label: label, Deps: deps, Expr: e, Src: rest, File: path, Line: ll.line}, nil
		}
		switch kw {
		case "func", "trusted":
			name := rest
			if kw == "trusted" {
				if !strings.HasPrefix(rest, "func ") {
					return fail("expected 'trusted func'")
				}
				name = strings.TrimSpace(rest[5:])
			}
			pk := pkgPath
			// external: "pkg/path.Name" allowed
			sig := ""
			if k := strings.Index(name, "("); k >= 0 {
				sig = name[k:]
				name = strings.TrimSpace(name[:k])
			}
			if strings.HasPrefix(name, "ext:") {
				// ext:math/bits.LeadingZeros8 : package path up to the first '.' after the last '/'
				n := name[4:]
				k := strings.LastIndex(n, "/")
				j := strings.Index(n[k+1:], ".")
				if j < 0 {
					return fail("ext: name needs pkg.Func")
				}
				pk, name = n[:k+1+j], n[k+1+j+1:]
			}
			cur = &FuncContract{Pkg: pk, Name: name, Mode: "", Loops: map[int]*LoopSpec{}, Nullable: map[string]bool{},
				File: path, Line: ll.line, Trusted: kw == "trusted", Sig: sig, Extra: map[string]string{}}
			key := pk + "." + name
			if prev, dup := cs.Funcs[key]; dup {
				if !(prev.Trusted && cur.Trusted) {
					return fail("duplicate contract for %s", key)
				}
				// the same trusted dependency contract may be repeated per package; texts must agree
				cs.dupTrusted = append(cs.dupTrusted, [2]*FuncContract{prev, cur})
			} else {
				cs.Funcs[key] = cur
			}
		case "spec":
			if !strings.HasPrefix(rest, "func ") {
				return fail("expected 'spec func'")
			}
			sf, err := parseSpecFunc(strings.TrimSpace(rest[5:]))
			if err != nil {
				return fail("%v", err)
			}
			sf.Pkg = pkgPath
			sf.Line = ll.line
			cs.Specs[pkgPath+"."+sf.Name] = sf
			cur = nil
		case "opaque":
			entry := false
			if strings.HasPrefix(rest, "entrystate ") {
				// the body reads memory as it was at function entry
				entry = true
				rest = strings.TrimSpace(rest[11:])
			}
			if !strings.HasPrefix(rest, "spec func ") {
				return fail("expected 'opaque [entrystate] spec func'")
			}
			sf, err := parseSpecFunc(strings.TrimSpace(rest[10:]))
			if err != nil {
				return fail("%v", err)
			}
			sf.Pkg = pkgPath
			sf.Line = ll.line
			sf.Opaque = true
			sf.EntryState = entry
			cs.Specs[pkgPath+"."+sf.Name] = sf
			cur = nil
		case "embedded":
			for _, n := range strings.Fields(strings.ReplaceAll(rest, ",", " ")) {
				cs.Embedded = append(cs.Embedded, pkgPath+"."+n)
			}
			cur = nil
		case "table":
			for _, n := range strings.Fields(strings.ReplaceAll(rest, ",", " ")) {
				cs.Tables[pkgPath+"."+n] = true
			}
			cur = nil
		case "ghostfield":
			// ghostfield NAME: every object (pointer or interface value) has an integer ghost field,
			// read in specifications as NAME(x) and named in frames as NAME(x)
			if cs.GhostFields == nil {
				cs.GhostFields = map[string]bool{}
			}
			for _, n := range strings.Fields(strings.ReplaceAll(rest, ",", " ")) {
				cs.GhostFields[n] = true
			}
			cur = nil
		case "uninterp":
			if !strings.HasPrefix(rest, "func ") {
				return fail("expected 'uninterp func'")
			}
			sf, err := parseSpecFunc(strings.TrimSpace(rest[5:]) + " = 0")
			if err != nil {
				return fail("%v", err)
			}
			sf.Pkg = pkgPath
			sf.Uninterp = true
			sf.Body = nil
			cs.Specs[pkgPath+"."+sf.Name] = sf
			cur = nil
		case "lemma", "axiom":
			k := strings.Index(rest, ":")
			if k < 0 {
				return fail("lemma needs 'name: expr'")
			}
			nm := strings.TrimSpace(rest[:k])
			mode := "int"
			if f := strings.Fields(nm); len(f) == 2 {
				mode, nm = f[0], f[1]
			}
			e, err := ParseSpec(rest[k+1:])
			if err != nil {
				return fail("%v", err)
			}
			l := &Lemma{Pkg: pkgPath, Name: nm, Mode: mode, Props: props, Expr: e, Src: strings.TrimSpace(rest[k+1:]), Line: ll.line, File: path}
			if kw == "lemma" {
				cs.Lemmas = append(cs.Lemmas, l)
			} else {
				cs.Axioms = append(cs.Axioms, l)
			}
			cur = nil
		default:
			if cur == nil {
				return fail("clause %q outside a func block", kw)
			}
			switch kw {
			case "mode":
				if rest != "bv" && rest != "int" {
					return fail("mode must be bv or int")
				}
				cur.Mode = rest
			case "props":
				for _, p := range strings.Split(rest, ",") {
					cur.Props = append(cur.Props, strings.TrimSpace(p))
				}
			case "requires":
				c, err := mkClause("requires")
				if err != nil {
					return err
				}
				cur.Requires = append(cur.Requires, c)
			case "ensures":
				c, err := mkClause("ensures")
				if err != nil {
					return err
				}
				if c.Label == "" {
					c.Label = fmt.Sprintf("ensures#%d", len(cur.Ensures))
				}
				cur.Ensures = append(cur.Ensures, c)
			case "panics":
				if !strings.HasPrefix(rest, "when ") {
					return fail("expected 'panics when <cond>'")
				}
				rest = rest[5:]
				c, err := mkClause("panics")
				if err != nil {
					return err
				}
				cur.Panics = append(cur.Panics, c)
			case "modifies":
				for _, part := range splitTop(rest, ',') {
					part = strings.TrimSpace(part)
					if part == "nothing" {
						continue
					}
					e, err := ParseSpec(part)
					if err != nil {
						return fail("%v", err)
					}
					cur.Modifies = append(cur.Modifies, e)
					cur.ModSrc = append(cur.ModSrc, part)
				}
			case "loop":
				f := strings.Fields(rest)
				if len(f) < 2 {
					return fail("loop N <clause>")
				}
				n, err := strconv.Atoi(f[0])
				if err != nil {
					return fail("loop ordinal: %v", err)
				}
				ls := cur.Loops[n]
				if ls == nil {
					ls = &LoopSpec{Ord: n, Line: ll.line}
					cur.Loops[n] = ls
				}
				sub := f[1]
				rest = strings.TrimSpace(strings.TrimPrefix(strings.TrimSpace(rest[len(f[0]):]), sub))
				if m := reTag.FindStringSubmatch(sub); m != nil {
					for _, p := range strings.Split(m[2], ",") {
						props = append(props, strings.TrimSpace(p))
					}
					sub = m[1]
				}
				if strings.HasPrefix(rest, "@") {
					g := strings.Fields(rest)[0]
					label = g[1:]
					rest = strings.TrimSpace(rest[len(g):])
				}
				switch sub {
				case "invariant":
					c, err := mkClause("invariant")
					if err != nil {
						return err
					}
					if c.Label == "" {
						c.Label = fmt.Sprintf("inv#%d", len(ls.Invariants))
					}
					ls.Invariants = append(ls.Invariants, c)
				case "assume":
					// a fact taken for granted at the loop head (no obligation is generated); it is listed
					// among the assumptions of every property the function serves
					c, err := mkClause("assume")
					if err != nil {
						return err
					}
					c.used = 1
					ls.Assumes = append(ls.Assumes, c)
				case "decreases":
					c, err := mkClause("decreases")
					if err != nil {
						return err
					}
					ls.Decreases = c
				case "unroll":
					k, err := strconv.Atoi(rest)
					if err != nil {
						return fail("unroll count: %v", err)
					}
					ls.Unroll = k
				default:
					return fail("unknown loop clause %q", sub)
				}
			case "def":
				// function-local spec function: sees the parameters and memory as at function entry; always opaque
				sf, err := parseSpecFunc(rest)
				if err != nil {
					return fail("%v", err)
				}
				sf.Pkg = pkgPath
				sf.Line = ll.line
				sf.Opaque, sf.EntryState, sf.Local = true, true, true
				if cur.LocalSpecs == nil {
					cur.LocalSpecs = map[string]*SpecFunc{}
				}
				cur.LocalSpecs[sf.Name] = sf
			case "macro":
				// function-local abbreviation: expanded where it is used, so local variables, ghost
				// state and memory are those of the place of use
				sf, err := parseSpecFunc(rest)
				if err != nil {
					return fail("%v", err)
				}
				sf.Pkg = pkgPath
				sf.Line = ll.line
				sf.Local, sf.Macro = true, true
				if cur.LocalSpecs == nil {
					cur.LocalSpecs = map[string]*SpecFunc{}
				}
				cur.LocalSpecs[sf.Name] = sf
			case "inline":
				cur.Inline = true
			case "pure":
				cur.Pure = true
			case "nullable":
				for _, n := range strings.Split(rest, ",") {
					cur.Nullable[strings.TrimSpace(n)] = true
				}
			case "may_alias":
				cur.MayAlias = true
			case "wraps":
				cur.Wraps = true
			case "assumes":
				// "assumes pre Callee": the preconditions of Callee are assumed at its call sites in this
				// function instead of being checked (they are the responsibility of this function's own
				// callers, e.g. ordering conditions over a history); listed as an assumption
				f := strings.Fields(rest)
				if (len(f) != 2 && len(f) != 3) || f[0] != "pre" || (len(f) == 3 && !strings.HasPrefix(f[2], "@")) {
					return fail("expected 'assumes pre <callee> [@label]'")
				}
				if cur.AssumePre == nil {
					cur.AssumePre = map[string]string{}
				}
				cur.AssumePre[f[1]] = "*"
				if len(f) == 3 {
					cur.AssumePre[f[1]] = f[2][1:]
				}
			case "merges":
				// "merges named": where paths meet, a heap that differs between them is given a fresh
				// symbol, defined by an equation with the if-then-else of the path versions; later terms
				// mention the symbol instead of carrying the if-then-else into every read
				if strings.TrimSpace(rest) != "named" {
					return fail("expected 'merges named'")
				}
				cur.NameMerges = true
			case "returns":
				// "returns separately": each postcondition is evaluated on the state of every return
				// statement in turn (the obligation is their conjunction) instead of on the merged exit
				// state, whose nested if-then-else terms can keep the solvers from matching anything
				if strings.TrimSpace(rest) != "separately" {
					return fail("expected 'returns separately'")
				}
				cur.PerReturn = true
			case "channels":
				// "channels ignored": channel sends in this function are treated as no-ops (what the
				// receiving goroutine does is outside the contract); listed as an assumption
				cur.IgnoreChan = true
			case "decoder":
				cur.Decoder = true
			case "terminates":
				cur.Terminates = true
			case "uses":
				// lemmas (proved as their own obligations) available as hypotheses in this function
				for _, n := range strings.Fields(strings.ReplaceAll(rest, ",", " ")) {
					cur.Uses = append(cur.Uses, n)
				}
			case "anymode":
				// the contract's spec expressions mean the same over mathematical integers and over
				// bit-vectors (no wrap-around can occur in them): it may be applied from either mode
				cur.AnyMode = true
			case "abstract":
				cur.Abstract = append(cur.Abstract, rest)
			case "ghost":
				f := strings.Fields(rest)
				if len(f) < 2 {
					return fail("ghost name type [= init]")
				}
				g := GhostDecl{Name: f[0], Type: f[1]}
				if k := strings.Index(rest, "="); k >= 0 {
					e, err := ParseSpec(rest[k+1:])
					if err != nil {
						return fail("%v", err)
					}
					g.Init = e
				}
				cur.Ghost = append(cur.Ghost, g)
			case "at":
				if ka := strings.Index(rest, " assume "); ka >= 0 && !strings.Contains(rest[:ka], " ghost ") && !strings.Contains(rest[:ka], " assert ") {
					e, err := ParseSpec(rest[ka+8:])
					if err != nil {
						return fail("%v", err)
					}
					ga := &GhostAt{Site: strings.Join(strings.Fields(rest[:ka]), " "), Line: ll.line}
					ga.Stmts = append(ga.Stmts, GhostStmt{Assert: e, Assume: true, Src: strings.TrimSpace(rest[ka+8:])})
					cur.GhostAt = append(cur.GhostAt, ga)
					continue
				}
				if ka := strings.Index(rest, " assert "); ka >= 0 && !strings.Contains(rest[:ka], " ghost ") {
					e, err := ParseSpec(rest[ka+8:])
					if err != nil {
						return fail("%v", err)
					}
					ga := &GhostAt{Site: strings.Join(strings.Fields(rest[:ka]), " "), Line: ll.line}
					ga.Stmts = append(ga.Stmts, GhostStmt{Assert: e, Src: strings.TrimSpace(rest[ka+8:])})
					cur.GhostAt = append(cur.GhostAt, ga)
					continue
				}
				k := strings.Index(rest, " ghost ")
				if k < 0 {
					return fail("expected 'at <site> ghost <stmts>' or 'at <site> assert <expr>'")
				}
				ga := &GhostAt{Site: strings.Join(strings.Fields(rest[:k]), " "), Line: ll.line}
				for _, s := range strings.Split(rest[k+7:], ";") {
					s = strings.TrimSpace(s)
					if s == "" {
						continue
					}
					eq := topLevelAssign(s)
					if eq < 0 {
						return fail("ghost statement needs 'target = expr': %q", s)
					}
					lhs, err := ParseSpec(s[:eq])
					if err != nil {
						return fail("%v", err)
					}
					rhs, err := ParseSpec(s[eq+1:])
					if err != nil {
						return fail("%v", err)
					}
					gs := GhostStmt{Rhs: rhs, Src: s}
					switch t := lhs.(type) {
					case *SIdent:
						gs.Name = t.Name
					case *SIndex:
						id, ok := t.X.(*SIdent)
						if !ok {
							return fail("ghost assignment target must be name or name[index]")
						}
						gs.Name, gs.Index = id.Name, t.I
					default:
						return fail("ghost assignment target must be name or name[index]")
					}
					ga.Stmts = append(ga.Stmts, gs)
				}
				cur.GhostAt = append(cur.GhostAt, ga)
			default:
				return fail("unknown clause %q", kw)
			}
		}
	}
	return nil
}

// topLevelAssign finds the '=' of an assignment (not ==, <=, >=, !=).
func topLevelAssign(s string) int {
	depth := 0
	for i := 0; i < len(s); i++ {
		switch s[i] {
		case '(', '[':
			depth++
		case ')', ']':
			depth--
		case '=':
			if depth != 0 {
				continue
			}
			if i+1 < len(s) && s[i+1] == '=' {
				i++
				continue
			}
			if i > 0 && (s[i-1] == '<' || s[i-1] == '>' || s[i-1] == '!' || s[i-1] == '=') {
				continue
			}
			return i
		}
	}
	return -1
}

type GhostStmt struct {
	Assert SpecExpr // non-nil: an intermediate assertion (proved, then assumed) instead of an assignment
	Assume bool     // with Assert: not proved, only assumed (an explicit assumption, listed in the evidence)
	Name  string
	Index SpecExpr
	Rhs   SpecExpr
	Src   string
}

type GhostAt struct {
	Site  string // "entry", "append#N", "loop N back"
	Stmts []GhostStmt
	Line  int
	used  int
}

func splitTop(s string, sep byte) []string {
	var out []string
	depth := 0
	last := 0
	for i := 0; i < len(s); i++ {
		switch s[i] {
		case '(', '[':
			depth++
		case ')', ']':
			depth--
		case sep:
			if depth == 0 {
				out = append(out, s[last:i])
				last = i + 1
			}
		}
	}
	out = append(out, s[last:])
	return out
}

// parseSpecFunc parses "name(a T, b, c U) R = expr".
func parseSpecFunc(s string) (*SpecFunc, error) {
	k := strings.Index(s, "(")
	if k < 0 {
		return nil, fmt.Errorf("spec func: missing (")
	}
	sf := &SpecFunc{Name: strings.TrimSpace(s[:k]), Src: s}
	// find matching )
	depth := 0
	j := k
	for ; j < len(s); j++ {
		if s[j] == '(' {
			depth++
		} else if s[j] == ')' {
			depth--
			if depth == 0 {
				break
			}
		}
	}
	if j >= len(s) {
		return nil, fmt.Errorf("spec func: unbalanced parens")
	}
	ps := strings.TrimSpace(s[k+1 : j])
	if ps != "" {
		var pending []string
		for _, part := range strings.Split(ps, ",") {
			f := strings.Fields(part)
			switch len(f) {
			case 1:
				pending = append(pending, f[0])
			case 2:
				for _, p := range pending {
					sf.Params = append(sf.Params, Param{p, f[1]})
				}
				pending = nil
				sf.Params = append(sf.Params, Param{f[0], f[1]})
			default:
				return nil, fmt.Errorf("spec func: bad parameter %q", part)
			}
		}
		if len(pending) > 0 {
			return nil, fmt.Errorf("spec func: parameters without type: %v", pending)
		}
	}
	rest := strings.TrimSpace(s[j+1:])
	eq := strings.Index(rest, "=")
	if eq < 0 {
		return nil, fmt.Errorf("spec func: missing '='")
	}
	sf.Ret = strings.TrimSpace(rest[:eq])
	body, err := ParseSpec(rest[eq+1:])
	if err != nil {
		return nil, err
	}
	sf.Body = body
	return sf, nil
}
