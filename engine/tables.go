package main

// Package-level tables (DESIGN 2.7): globals named by `//@ table <name>` are read by
// running the package's own initialisation (an in-package test injected with
// -overlay prints them as JSON); their elements enter the VCs as axioms on the
// entry heap. That they are never written after init is checked on the SSA.

import (
	"bytes"
	"context"
	"encoding/json"
	"fmt"
	"go/types"
	"math/big"
	"os"
	"os/exec"
	"path/filepath"
	"sort"
	"strings"
	"time"

	"golang.org/x/tools/go/ssa"
)

type tableData struct {
	raw json.RawMessage
}

// extractTables runs one test per package that declares tables.
func (v *Verifier) extractTables(dir string) error {
	byPkg := map[string][]string{}
	for key := range v.cs.Tables {
		k := strings.LastIndex(key, ".")
		byPkg[key[:k]] = append(byPkg[key[:k]], key[k+1:])
	}
	var pkgs []string
	for p := range byPkg {
		pkgs = append(pkgs, p)
	}
	sort.Strings(pkgs)
	for _, pkgPath := range pkgs {
		names := byPkg[pkgPath]
		sort.Strings(names)
		sp := v.pkgs[pkgPath]
		if sp == nil {
			return fmt.Errorf("table directive for unknown package %s", pkgPath)
		}
		for _, n := range names {
			g, ok := sp.Members[n].(*ssa.Global)
			if !ok {
				return fmt.Errorf("table %s.%s: no such package-level variable", pkgPath, n)
			}
			if err := v.checkTableImmutable(sp, g); err != nil {
				return err
			}
		}
		var src strings.Builder
		fmt.Fprintf(&src, "package %s\n\nimport (\n\t\"encoding/json\"\n\t\"fmt\"\n\t\"testing\"\n)\n\nfunc TestHvcTables(t *testing.T) {\n", sp.Pkg.Name())
		for _, n := range names {
			fmt.Fprintf(&src, "\t{\n\t\tb, err := json.Marshal(%s)\n\t\tif err != nil {\n\t\t\tt.Fatal(err)\n\t\t}\n\t\tfmt.Printf(\"HVC-TABLE %s %%s\\n\", b)\n\t}\n", n, n)
		}
		src.WriteString("}\n")
		tmp, err := os.MkdirTemp("", "hvc-tables-")
		if err != nil {
			return err
		}
		defer os.RemoveAll(tmp)
		tf := filepath.Join(tmp, "zz_hvc_tables_test.go")
		if err := os.WriteFile(tf, []byte(src.String()), 0o644); err != nil {
			return err
		}
		rel := strings.TrimPrefix(strings.TrimPrefix(pkgPath, "github.com/biogo/hts"), "/")
		pdir := filepath.Join(dir, rel)
		repl := map[string]string{filepath.Join(pdir, "zz_hvc_tables_test.go"): tf}
		// the package's own tests are not needed: replace them by empty files so that the test
		// binary builds quickly and without their dependencies
		if ents, err := os.ReadDir(pdir); err == nil {
			for _, e := range ents {
				if !strings.HasSuffix(e.Name(), "_test.go") {
					continue
				}
				data, err := os.ReadFile(filepath.Join(pdir, e.Name()))
				if err != nil {
					continue
				}
				pk := sp.Pkg.Name()
				for _, ln := range strings.Split(string(data), "\n") {
					if strings.HasPrefix(ln, "package ") {
						pk = strings.TrimSpace(strings.TrimPrefix(ln, "package "))
						break
					}
				}
				stub := filepath.Join(tmp, "stub_"+e.Name())
				_ = os.WriteFile(stub, []byte("package "+pk+"\n"), 0o644)
				repl[filepath.Join(pdir, e.Name())] = stub
			}
		}
		ov, _ := json.Marshal(map[string]map[string]string{"Replace": repl})
		ovf := filepath.Join(tmp, "ov.json")
		_ = os.WriteFile(ovf, ov, 0o644)
		ctx, cancel := context.WithTimeout(context.Background(), 180*time.Second)
		cmd := exec.CommandContext(ctx, "go", "test", "-overlay", ovf, "-vet=off", "-count=1", "-v", "-timeout", "60s", "-run", "^TestHvcTables$", ".")
		cmd.Dir = pdir
		cmd.Env = append(os.Environ(), "GOFLAGS=-mod=mod", "GOPROXY=off", "GOSUMDB=off", "GOTOOLCHAIN=local")
		var out bytes.Buffer
		cmd.Stdout, cmd.Stderr = &out, &out
		err = cmd.Run()
		cancel()
		found := 0
		for _, ln := range strings.Split(out.String(), "\n") {
			if !strings.HasPrefix(ln, "HVC-TABLE ") {
				continue
			}
			f := strings.SplitN(ln, " ", 3)
			if len(f) == 3 {
				v.tableRaw[pkgPath+"."+f[1]] = json.RawMessage(f[2])
				found++
			}
		}
		if found != len(names) {
			return fmt.Errorf("table extraction for %s failed (%v): %s", pkgPath, err, firstLines(out.String(), 8))
		}
	}
	return nil
}

// checkTableImmutable: outside init, the global is only loaded and the loaded value only indexed/measured.
func (v *Verifier) checkTableImmutable(sp *ssa.Package, g *ssa.Global) error {
	var fns []*ssa.Function
	for _, m := range sp.Members {
		switch t := m.(type) {
		case *ssa.Function:
			fns = append(fns, t)
		case *ssa.Type:
			for _, ty := range []types.Type{t.Type(), types.NewPointer(t.Type())} {
				ms := v.prog.MethodSets.MethodSet(ty)
				for i := 0; i < ms.Len(); i++ {
					if f := v.prog.MethodValue(ms.At(i)); f != nil {
						fns = append(fns, f)
					}
				}
			}
		}
	}
	var all []*ssa.Function
	seen := map[*ssa.Function]bool{}
	var add func(f *ssa.Function)
	add = func(f *ssa.Function) {
		if f == nil || seen[f] {
			return
		}
		seen[f] = true
		all = append(all, f)
		for _, a := range f.AnonFuncs {
			add(a)
		}
	}
	for _, f := range fns {
		add(f)
	}
	readOnlyUse := func(val ssa.Value) bool {
		var ok func(x ssa.Value, depth int) bool
		ok = func(x ssa.Value, depth int) bool {
			refs := x.Referrers()
			if refs == nil {
				return true
			}
			for _, r := range *refs {
				switch t := r.(type) {
				case *ssa.DebugRef:
				case *ssa.IndexAddr:
					if !ok(t, depth+1) {
						return false
					}
				case *ssa.FieldAddr:
					if !ok(t, depth+1) {
						return false
					}
				case *ssa.Index, *ssa.Field, *ssa.Lookup:
				case *ssa.UnOp:
					// a load; the loaded value (slice header or element) may be indexed further
					if _, isPtr := x.Type().Underlying().(*types.Pointer); isPtr {
						if _, isSlice := t.Type().Underlying().(*types.Slice); isSlice {
							if !ok(t, depth+1) {
								return false
							}
						}
					}
				case *ssa.Call:
					if b, isB := t.Call.Value.(*ssa.Builtin); isB && (b.Name() == "len" || b.Name() == "cap") {
						continue
					}
					// functions of package bytes that only read their arguments
					if f, isF := t.Call.Value.(*ssa.Function); isF && f.Pkg != nil && f.Pkg.Pkg.Path() == "bytes" {
						switch f.Name() {
						case "Index", "IndexByte", "LastIndex", "Equal", "HasPrefix", "HasSuffix", "Contains", "Compare", "Count":
							continue
						}
					}
					return false
				case *ssa.Range, *ssa.BinOp, *ssa.Phi:
					if _, isPhi := r.(*ssa.Phi); isPhi {
						return false
					}
				default:
					return false
				}
			}
			return true
		}
		return ok(val, 0)
	}
	for _, f := range all {
		if f.Name() == "init" || strings.HasPrefix(f.Name(), "init#") {
			continue
		}
		for _, b := range f.Blocks {
			for _, ins := range b.Instrs {
				for _, op := range ins.Operands(nil) {
					if *op != ssa.Value(g) {
						continue
					}
					switch t := ins.(type) {
					case *ssa.UnOp:
						if valueCopy(t.Type()) {
							continue // a copy of a value without references: anything may be done with it
						}
						if !readOnlyUse(t) {
							return fmt.Errorf("table %s may be modified or escape in %s", g.Name(), f.Name())
						}
					case *ssa.IndexAddr:
						if !readOnlyUse(t) {
							return fmt.Errorf("table %s may be modified or escape in %s", g.Name(), f.Name())
						}
					case *ssa.DebugRef:
					default:
						return fmt.Errorf("table %s is used by %T in %s (only reads are allowed)", g.Name(), ins, f.Name())
					}
				}
			}
		}
	}
	return nil
}

// tableFacts adds the extracted contents of a table global as axioms.
func (v *Verifier) tableFacts(fx *FnCtx, g *ssa.Global, val Value) {
	key := g.Pkg.Pkg.Path() + "." + g.Name()
	raw, ok := v.tableRaw[key]
	if !ok {
		return
	}
	marker := Sym("tbl_"+fx.tc.Mode.String()+"_"+key, BoolSort)
	if fx.root.heapAxiomDone[marker] {
		return
	}
	fx.root.heapAxiomDone[marker] = true
	tc := fx.tc
	t := g.Type().(*types.Pointer).Elem()
	add := func(f *Term) { fx.root.axioms = append(fx.root.axioms, f) }
	switch u := t.Underlying().(type) {
	case *types.Slice:
		var elems []json.RawMessage
		if b, ok := u.Elem().Underlying().(*types.Basic); ok && b.Kind() == types.Uint8 && len(raw) > 0 && raw[0] == '"' {
			// encoding/json renders []byte as a base64 string
			var bs []byte
			if err := json.Unmarshal(raw, &bs); err != nil {
				fx.fail("table %s: %v", key, err)
			}
			for _, x := range bs {
				elems = append(elems, json.RawMessage(fmt.Sprint(int(x))))
			}
		} else if err := json.Unmarshal(raw, &elems); err != nil {
			fx.fail("table %s: %v", key, err)
		}
		n := int64(len(elems))
		add(tc.IdxLt(tc.IdxNum(0), val.L[0]))
		add(Eq(val.L[1], tc.IdxNum(0)))
		add(Eq(val.L[2], tc.IdxNum(n)))
		add(tc.IdxLe(tc.IdxNum(n), val.L[3]))
		lay := tc.Layout(u.Elem())
		for i, e := range elems {
			vals := fx.flattenJSON(u.Elem(), e, key)
			for k, lf := range lay.Leaves {
				name := arrHeapName(u.Elem(), lf)
				h := fx.initialHeap(name, tc.heapSort(name, lf), lf)
				fx.V.heapLeaves[name] = heapInfo{lf, tc.heapSort(name, lf)}
				if vals[k] != nil {
					add(Eq(Select(Select(h, val.L[0]), tc.IdxNum(int64(i))), vals[k]))
				}
			}
		}
	case *types.Array:
		var elems []json.RawMessage
		if err := json.Unmarshal(raw, &elems); err != nil {
			fx.fail("table %s: %v", key, err)
		}
		for i, e := range elems {
			vals := fx.flattenJSON(u.Elem(), e, key)
			for k := range vals {
				if vals[k] != nil {
					add(Eq(Select(val.L[k], tc.IdxNum(int64(i))), vals[k]))
				}
			}
		}
	default:
		vals := fx.flattenJSON(t, raw, key)
		for k := range vals {
			if vals[k] != nil {
				add(Eq(val.L[k], vals[k]))
			}
		}
	}
}

func (fx *FnCtx) flattenJSON(t types.Type, raw json.RawMessage, key string) []*Term {
	tc := fx.tc
	switch u := t.Underlying().(type) {
	case *types.Basic:
		switch {
		case u.Info()&types.IsInteger != 0:
			n, ok := new(big.Int).SetString(strings.TrimSpace(string(raw)), 10)
			if !ok {
				fx.fail("table %s: bad integer %s", key, raw)
			}
			return []*Term{tc.IntConst(n, t)}
		case u.Info()&types.IsBoolean != 0:
			return []*Term{Bool(strings.TrimSpace(string(raw)) == "true")}
		case u.Info()&types.IsString != 0:
			// only the length of a string entry is exported (nil = no fact for that leaf)
			var str string
			if err := json.Unmarshal(raw, &str); err != nil {
				fx.fail("table %s: %v", key, err)
			}
			return []*Term{nil, nil, tc.IdxNum(int64(len(str)))}
		}
	case *types.Struct:
		var m map[string]json.RawMessage
		if err := json.Unmarshal(raw, &m); err != nil {
			fx.fail("table %s: %v", key, err)
		}
		var out []*Term
		for i := 0; i < u.NumFields(); i++ {
			f := u.Field(i)
			r, ok := m[f.Name()]
			if !ok {
				fx.fail("table %s: field %s is not exported to JSON", key, f.Name())
			}
			out = append(out, fx.flattenJSON(f.Type(), r, key)...)
		}
		return out
	}
	fx.fail("table %s: unsupported element type %v", key, t)
	return nil
}

// valueCopy: values of this type hold no references into the table (scalars and arrays of scalars).
func valueCopy(t types.Type) bool {
	switch u := t.Underlying().(type) {
	case *types.Basic:
		return u.Info()&types.IsString == 0 && u.Kind() != types.UnsafePointer
	case *types.Array:
		return valueCopy(u.Elem())
	case *types.Struct:
		for i := 0; i < u.NumFields(); i++ {
			if !valueCopy(u.Field(i).Type()) {
				return false
			}
		}
		return true
	}
	return false
}
