package main

// Maps: a map value is a reference; per map type there are heaps
//   M:<type>:dom  : ref -> (key -> Bool)      which keys are present
//   M:<type>:val… : ref -> (key -> leaf)      one per leaf of the element type
//   M:<type>:len  : ref -> int                number of keys
// Keys must be scalars; string keys use their content identity (strKey).

import (
	"go/types"

	"golang.org/x/tools/go/ssa"
)

type mapHeaps struct {
	mt      *types.Map
	keySort *Sort
	dom     string
	ln      string
	vals    []string
	vleaves []Leaf
}

func (fx *FnCtx) mapInfo(t types.Type) *mapHeaps {
	tc := fx.tc
	mt, ok := t.Underlying().(*types.Map)
	if !ok {
		fx.fail("not a map type: %v", t)
	}
	var ks *Sort
	if isStringType(mt.Key()) || smallByteArray(mt.Key()) {
		ks = tc.IdxSort()
	} else {
		kl := tc.Layout(mt.Key()).Leaves
		if len(kl) != 1 || kl[0].Sort.Kind == SArray {
			fx.fail("map key type %v is outside the model (scalar or string keys only)", mt.Key())
		}
		ks = kl[0].Sort
	}
	key := typeKey(mt)
	mh := &mapHeaps{mt: mt, keySort: ks, dom: "M:" + key + ":dom", ln: "M:" + key + ":len"}
	ix := tc.IdxSort()
	fx.V.heapLeaves[mh.dom] = heapInfo{Leaf{Path: ":dom", Sort: BoolSort, Kind: "mapdom"}, ArraySort(ix, ArraySort(ks, BoolSort))}
	fx.V.heapLeaves[mh.ln] = heapInfo{Leaf{Path: ":len", Sort: ix, Kind: "len"}, ArraySort(ix, ix)}
	for _, lf := range tc.Layout(mt.Elem()).Leaves {
		n := "M:" + key + ":val" + lf.Path
		mh.vals = append(mh.vals, n)
		mh.vleaves = append(mh.vleaves, lf)
		fx.V.heapLeaves[n] = heapInfo{Leaf{Path: lf.Path, Sort: lf.Sort, T: lf.T, Kind: "mapval:" + lf.Kind}, ArraySort(ix, ArraySort(ks, lf.Sort))}
	}
	return mh
}

// mapHeap returns the current term of one of the map heaps.
func (fx *FnCtx) mapHeap(st *State, name string) *Term {
	if h, ok := st.Heaps[name]; ok {
		return h
	}
	hi := fx.V.heapLeaves[name]
	h := Sym("H0_"+fx.tc.Mode.String()+"_"+name, hi.Sort)
	if !fx.root.heapAxiomDone[h] {
		fx.root.heapAxiomDone[h] = true
		tc := fx.tc
		zero := tc.IdxNum(0)
		switch hi.Leaf.Kind {
		case "mapval:ref", "mapval:id":
			// references stored in maps at function entry denote objects that existed then
			if fx.root.boundedK == 0 {
				r := BoundVar("r", tc.IdxSort())
				k := BoundVar("k", hi.Sort.Elem.Idx)
				s := Select(Select(h, r), k)
				var body *Term
				if hi.Leaf.Kind == "mapval:id" {
					body = And(tc.Ge0(s), tc.IdxLt(s, fx.root.entryNAlloc))
				} else {
					body = And(tc.Ge0(s), tc.validRef(s, fx.root.entryNAlloc))
				}
				fx.root.axioms = append(fx.root.axioms, Forall([]*Term{r, k}, body, []*Term{s}))
			}
		case "mapdom":
			// the nil map has no keys
			fx.root.axioms = append(fx.root.axioms, Eq(Select(h, zero), ConstArray(hi.Sort.Elem, False)))
		case "len":
			fx.root.axioms = append(fx.root.axioms, Eq(Select(h, zero), zero))
			if fx.root.boundedK == 0 {
				r := BoundVar("r", tc.IdxSort())
				s := Select(h, r)
				fx.root.axioms = append(fx.root.axioms, Forall([]*Term{r}, And(tc.Ge0(s), tc.IdxLe(s, tc.IdxNum(1<<40))), []*Term{s}))
			}
		}
	}
	return h
}

func (fx *FnCtx) initialHeapAny(name string) *Term {
	hi := fx.V.heapLeaves[name]
	if len(name) > 2 && name[0] == 'M' {
		return Sym("H0_"+fx.tc.Mode.String()+"_"+name, hi.Sort)
	}
	return fx.initialHeap(name, hi.Sort, hi.Leaf)
}

// mapKey converts a key value to the key sort.
func (fx *FnCtx) mapKey(mh *mapHeaps, k Value) *Term {
	if isStringType(mh.mt.Key()) {
		return fx.strKey(k)
	}
	if smallByteArray(mh.mt.Key()) {
		// a key of type [n]byte, n <= 7: the number with those digits base 256
		at := mh.mt.Key().Underlying().(*types.Array)
		tc := fx.tc
		var sum *Term = tc.IdxNum(0)
		mul := int64(1)
		for i := int64(0); i < at.Len(); i++ {
			d := Select(k.L[0], tc.IdxNum(i))
			if tc.Mode == ModeBV {
				d = BVZeroExt(64-d.Sort.Width, d)
				sum = bvBin("bvadd", sum, bvBin("bvmul", d, tc.IdxNum(mul)))
			} else {
				sum = IAdd(sum, IMul(d, IntNum(mul)))
			}
			mul *= 256
		}
		return sum
	}
	return k.L[0]
}

// smallByteArray: [n]byte (or an array of a named byte type) with n <= 7.
func smallByteArray(t types.Type) bool {
	at, ok := t.Underlying().(*types.Array)
	if !ok || at.Len() > 7 {
		return false
	}
	b, ok := at.Elem().Underlying().(*types.Basic)
	return ok && b.Kind() == types.Uint8
}

func (fx *FnCtx) makeMap(st *State, pc *Term, t *ssa.MakeMap) Value {
	tc := fx.tc
	mh := fx.mapInfo(t.Type())
	ref := fx.newRef(st)
	d := fx.mapHeap(st, mh.dom)
	st.Heaps[mh.dom] = Store(d, ref, ConstArray(ArraySort(mh.keySort, BoolSort), False))
	l := fx.mapHeap(st, mh.ln)
	st.Heaps[mh.ln] = Store(l, ref, tc.IdxNum(0))
	return Value{T: t.Type(), L: []*Term{ref}}
}

func (fx *FnCtx) mapFrameCheck(st *State, pc *Term, mt types.Type, ref *Term) {
	tc := fx.tc
	ok := tc.IdxLe(fx.root.entryNAlloc, ref)
	for _, it := range fx.root.frame {
		if it.Kind == PMap && types.Identical(it.Root, mt.Underlying()) {
			ok = Or(ok, Eq(ref, it.Ref))
		}
	}
	fx.safety("frame", pc, ok, "map write within the modifies frame")
}

func (fx *FnCtx) mapUpdate(st *State, pc *Term, t *ssa.MapUpdate) {
	tc := fx.tc
	m := fx.val(t.Map)
	mh := fx.mapInfo(t.Map.Type())
	ref := m.L[0]
	fx.safety("nil", pc, Not(Eq(ref, tc.IdxNum(0))), "assignment to entry in nil map")
	fx.mapFrameCheck(st, pc, t.Map.Type(), ref)
	k := fx.mapKey(mh, fx.val(t.Key))
	v := fx.storable(fx.val(t.Value))
	d := fx.mapHeap(st, mh.dom)
	had := Select(Select(d, ref), k)
	st.Heaps[mh.dom] = Store(d, ref, Store(Select(d, ref), k, True))
	l := fx.mapHeap(st, mh.ln)
	st.Heaps[mh.ln] = Store(l, ref, Ite(had, Select(l, ref), tc.IdxAdd(Select(l, ref), tc.IdxNum(1))))
	for i, n := range mh.vals {
		h := fx.mapHeap(st, n)
		st.Heaps[n] = Store(h, ref, Store(Select(h, ref), k, v.L[i]))
	}
}

func (fx *FnCtx) lookup(st *State, pc *Term, t *ssa.Lookup) Value {
	tc := fx.tc
	if _, isStr := t.X.Type().Underlying().(*types.Basic); isStr {
		// string indexing s[i] yields a byte
		x := fx.val(t.X)
		idx := fx.toIdx(fx.val(t.Index), t.Index.Type())
		fx.safety("bounds", pc, And(tc.IdxLe(tc.IdxNum(0), idx), tc.IdxLt(idx, x.L[2])), "string index in range")
		v := fx.readElem(st, types.Typ[types.Uint8], x.L[0], tc.IdxAdd(x.L[1], idx))
		return Value{T: t.Type(), L: v.L}
	}
	m := fx.val(t.X)
	mh := fx.mapInfo(t.X.Type())
	ref := m.L[0]
	k := fx.mapKey(mh, fx.val(t.Index))
	has := Select(Select(fx.mapHeap(st, mh.dom), ref), k)
	out := Value{T: t.Type()}
	zero := tc.Zero(mh.mt.Elem())
	for i, n := range mh.vals {
		h := fx.mapHeap(st, n)
		out.L = append(out.L, Ite(has, Select(Select(h, ref), k), zero.L[i]))
	}
	if t.CommaOk {
		out.L = append(out.L, has)
	} else {
		v := Value{T: mh.mt.Elem(), L: out.L}
		fx.loadFactsGuarded(st, pc, v, has)
	}
	return out
}

// loadFactsGuarded: facts about a value read from a map, valid when the key is present.
func (fx *FnCtx) loadFactsGuarded(st *State, pc *Term, v Value, has *Term) {
	lay := fx.tc.Layout(v.T)
	for i, l := range lay.Leaves {
		if i >= len(v.L) || v.L[i].hasBnd || v.L[i].Sort.Kind == SArray {
			continue
		}
		switch l.Kind {
		case "id":
			fx.assume(Implies(And(pc, has), fx.tc.IdxLt(v.L[i], st.NAlloc)))
		case "ref":
			fx.assume(Implies(And(pc, has), fx.tc.validRef(v.L[i], st.NAlloc)))
		}
		for _, f := range fx.tc.leafFacts(l, v.L[i]) {
			fx.assume(Implies(has, f))
		}
	}
}

func (fx *FnCtx) mapLen(st *State, m Value) *Term {
	mh := fx.mapInfo(m.T)
	return Select(fx.mapHeap(st, mh.ln), m.L[0])
}

func (fx *FnCtx) mapDelete(st *State, pc *Term, m, k Value, mt types.Type) {
	tc := fx.tc
	mh := fx.mapInfo(mt)
	ref := m.L[0]
	// delete on a nil map is a no-op
	fx.mapFrameCheck(st, And(pc, Not(Eq(ref, tc.IdxNum(0)))), mt, ref)
	key := fx.mapKey(mh, k)
	d := fx.mapHeap(st, mh.dom)
	had := Select(Select(d, ref), key)
	st.Heaps[mh.dom] = Store(d, ref, Store(Select(d, ref), key, False))
	l := fx.mapHeap(st, mh.ln)
	st.Heaps[mh.ln] = Store(l, ref, Ite(had, tc.IdxSub(Select(l, ref), tc.IdxNum(1)), Select(l, ref)))
}

// Range over a map: the iterator carries a ghost set of the keys already produced ("visited").
// Each Next either produces a key that is in the map now and not yet visited, in an arbitrary
// order, or reports the end, which happens only when every key of the map has been visited.
// What is proved therefore holds for every iteration order. That such a loop terminates is a
// property of the language (each key is produced at most once) and is not proved here.
func (fx *FnCtx) iterName(r *ssa.Range) string {
	return "iter$" + fx.prefix + "$" + r.Name()
}

func (fx *FnCtx) rangeInit(st *State, pc *Term, t *ssa.Range) Value {
	tc := fx.tc
	if _, ok := t.X.Type().Underlying().(*types.Map); !ok {
		fx.fail("range over a string is not modelled")
	}
	m := fx.val(t.X)
	mh := fx.mapInfo(t.X.Type())
	name := fx.iterName(t)
	vt := types.NewMap(mh.mt.Key(), types.Typ[types.Bool])
	st.Ghost[name] = Value{T: vt, L: []*Term{ConstArray(ArraySort(mh.keySort, BoolSort), False)}}
	// a map with len > 0 has a key
	w := Fresh("mapkey", mh.keySort)
	fx.keyFacts(mh, w)
	ln := Select(fx.mapHeap(st, mh.ln), m.L[0])
	fx.assume(Implies(And(pc, tc.IdxLt(tc.IdxNum(0), ln)), Select(Select(fx.mapHeap(st, mh.dom), m.L[0]), w)))
	fx.root.noteOnce("assumed: a loop that ranges over a map terminates (language semantics; not proved)")
	return Value{T: t.Type(), L: []*Term{m.L[0]}}
}

func (fx *FnCtx) rangeNext(st *State, pc *Term, t *ssa.Next) Value {
	tc := fx.tc
	r, ok := t.Iter.(*ssa.Range)
	if !ok || t.IsString {
		fx.fail("range over a string is not modelled")
	}
	it := fx.val(t.Iter)
	mh := fx.mapInfo(r.X.Type())
	ref := it.L[0]
	name := fx.iterName(r)
	vis, okv := st.Ghost[name]
	if !okv {
		fx.fail("internal: iterator state missing")
	}
	k := Fresh("rk", mh.keySort)
	fx.keyFacts(mh, k)
	okT := Fresh("rok", BoolSort)
	dom := Select(fx.mapHeap(st, mh.dom), ref)
	// a map with len > 0 has a key (in the current state)
	w := Fresh("mapkey", mh.keySort)
	fx.keyFacts(mh, w)
	fx.assume(Implies(And(pc, tc.IdxLt(tc.IdxNum(0), Select(fx.mapHeap(st, mh.ln), ref))), Select(dom, w)))
	fx.assume(Implies(And(pc, okT), And(Select(dom, k), Not(Select(vis.L[0], k)))))
	q := BoundVar("k", mh.keySort)
	fx.assume(Implies(And(pc, Not(okT)), Forall([]*Term{q}, Implies(Select(dom, q), Select(vis.L[0], q)))))
	st.Ghost[name] = Value{T: vis.T, L: []*Term{Ite(okT, Store(vis.L[0], k, True), vis.L[0])}}
	// result tuple (ok, key, value)
	out := Value{T: t.Type(), L: []*Term{okT}}
	tup := t.Type().(*types.Tuple)
	// key
	if tup.At(1).Type() != nil && !isInvalidType(tup.At(1).Type()) {
		if isStringType(mh.mt.Key()) {
			// the key handed to the loop body is some string whose content identity is k
			sv, facts := tc.FreshValue(mh.mt.Key(), "rkstr")
			for _, f := range facts {
				fx.assume(f)
			}
			fx.assume(Implies(And(pc, okT), Eq(fx.strKey(sv), k)))
			fx.assume(tc.IdxLt(sv.L[0], st.NAlloc))
			fx.assume(Eq(sv.L[1], tc.IdxNum(0)))
			out.L = append(out.L, sv.L...)
		} else if smallByteArray(mh.mt.Key()) {
			fx.fail("range over a map with array keys: the key value is not modelled")
		} else {
			out.L = append(out.L, k)
			for _, f := range tc.leafFacts(tc.Layout(mh.mt.Key()).Leaves[0], k) {
				fx.assume(f)
			}
		}
	}
	if tup.Len() > 2 && !isInvalidType(tup.At(2).Type()) {
		v := Value{T: mh.mt.Elem()}
		for _, n := range mh.vals {
			v.L = append(v.L, Select(Select(fx.mapHeap(st, n), ref), k))
		}
		fx.loadFactsGuarded(st, pc, v, okT)
		out.L = append(out.L, v.L...)
	}
	return out
}

func isInvalidType(t types.Type) bool {
	b, ok := t.(*types.Basic)
	return ok && b.Kind() == types.Invalid
}

// ---------------------------------------------------------------------------
// ghost heaps (specification-only state attached to objects), e.g. the lock state of a mutex

func (fx *FnCtx) ghostHeap(st *State, name string) *Term {
	tc := fx.tc
	if _, ok := fx.V.heapLeaves[name]; !ok {
		fx.V.heapLeaves[name] = heapInfo{Leaf{Path: name, Sort: tc.IdxSort(), Kind: "ghost"}, ArraySort(tc.IdxSort(), tc.IdxSort())}
	}
	if h, ok := st.Heaps[name]; ok {
		return h
	}
	return Sym("H0_"+tc.Mode.String()+"_"+name, fx.V.heapLeaves[name].Sort)
}

// keyFacts: a key of the map's key type lies in the range of that type (int mode).
func (fx *FnCtx) keyFacts(mh *mapHeaps, k *Term) {
	if isStringType(mh.mt.Key()) || smallByteArray(mh.mt.Key()) {
		return
	}
	for _, f := range fx.tc.leafFacts(fx.tc.Layout(mh.mt.Key()).Leaves[0], k) {
		fx.assume(f)
	}
}
