package main

// Interfaces, maps, ranges: partly modelled; unsupported forms fail loudly so the
// function is reported as outside the verifiable subset.

import (
	"strings"
	"go/types"

	"golang.org/x/tools/go/ssa"
)

func (v *Verifier) ifaceContract(call *ssa.CallCommon) *FuncContract {
	t := call.Value.Type()
	n, ok := t.(*types.Named)
	if !ok {
		return nil
	}
	pkg := ""
	if n.Obj().Pkg() != nil {
		pkg = n.Obj().Pkg().Path()
	}
	return v.cs.Funcs[pkg+"."+n.Obj().Name()+"."+call.Method.Name()]
}

func (fx *FnCtx) invokeCall(st *State, pc *Term, site ssa.Instruction, call *ssa.CallCommon, rt types.Type) Value {
	fc := fx.V.ifaceContract(call)
	if fc == nil {
		fx.fail("interface method call %s.%s has no contract", call.Value.Type(), call.Method.Name())
	}
	recv := fx.val(call.Value)
	if n := call.Method.Name(); n == "Read" || n == "ReadByte" || n == "ReadAt" {
		// a direct read from a reader is not part of the recorded stream (see StreamRead)
		fx.root.streamBad = true
	}
	fx.safety("nil", pc, Not(Eq(recv.L[0], fx.tc.IdxNum(0))), "method call on nil interface")
	args := []Value{recv}
	for _, a := range call.Args {
		args = append(args, fx.val(a))
	}
	return fx.contractCallNamed(st, pc, fc, call, args, rt)
}

// contractCallNamed applies a contract whose parameter names come from the method signature
// (receiver is "self").
func (fx *FnCtx) contractCallNamed(st *State, pc *Term, fc *FuncContract, call *ssa.CallCommon, args []Value, rt types.Type) Value {
	sig := call.Signature()
	names := []string{"self"}
	for i := 0; i < sig.Params().Len(); i++ {
		names = append(names, sig.Params().At(i).Name())
	}
	return fx.contractCallWithNames(st, pc, fc, names, args, rt, sig)
}

func (fx *FnCtx) makeInterface(st *State, pc *Term, t *ssa.MakeInterface) Value {
	tc := fx.tc
	x := fx.val(t.X)
	tag := fx.V.typeTag(t.X.Type())
	var ref *Term
	switch {
	case x.P != nil:
		if fx.ifacePtrs == nil {
			fx.ifacePtrs = map[ssa.Value]*PtrInfo{}
		}
		fx.ifacePtrs[t] = x.P
		p := x.P
		if (p.Kind == PObj && p.Off == 0 && len(p.ArrIdx) == 0 && types.Identical(p.Root, p.Typ)) || (p.Kind == PElem && p.Idx == nil && len(p.ArrIdx) == 0) {
			sv := fx.storable(x)
			ref = sv.L[0]
		} else {
			// an interior pointer: the interface value is opaque (only models of callees that are
			// given the MakeInterface instruction itself, such as binary.Read, can use the pointer)
			ref = Fresh("ifaceptr", tc.IdxSort())
			fx.assume(tc.IdxLt(tc.IdxNum(0), ref))
		}
	case len(x.L) == 1 && x.L[0].Sort == tc.IdxSort():
		ref = x.L[0]
	default:
		// box the value: fresh object holding a copy
		r := fx.newRef(st)
		p := &PtrInfo{Kind: PObj, Ref: r, Root: t.X.Type(), Typ: t.X.Type()}
		if len(x.L) > 0 {
			fx.StoreTo(st, p, x)
		}
		ref = r
	}
	return Value{T: t.Type(), L: []*Term{tc.IdxNum(int64(tag)), ref}}
}

func (v *Verifier) typeTag(t types.Type) int {
	k := typeKey(t)
	if id, ok := v.typeTags[k]; ok {
		return id
	}
	id := len(v.typeTags) + 1
	v.typeTags[k] = id
	v.tagTypes[id] = t
	return id
}

func (fx *FnCtx) typeAssert(st *State, pc *Term, t *ssa.TypeAssert) Value {
	tc := fx.tc
	x := fx.val(t.X)
	if _, isIface := t.AssertedType.Underlying().(*types.Interface); isIface {
		fx.fail("type assertion to interface type is outside the model")
	}
	tag := tc.IdxNum(int64(fx.V.typeTag(t.AssertedType)))
	ok := Eq(x.L[0], tag)
	var val Value
	lay := tc.Layout(t.AssertedType)
	if len(lay.Leaves) == 1 && lay.Leaves[0].Sort == tc.IdxSort() && !isIntType(t.AssertedType) {
		val = Value{T: t.AssertedType, L: []*Term{Ite(ok, x.L[1], tc.IdxNum(0))}}
	} else {
		p := &PtrInfo{Kind: PObj, Ref: x.L[1], Root: t.AssertedType, Typ: t.AssertedType}
		loaded := fx.Load(st, p)
		z := tc.Zero(t.AssertedType)
		m, err := iteValue(ok, loaded, z)
		if err != nil {
			fx.fail("type assert: %v", err)
		}
		val = m
	}
	if !t.CommaOk {
		fx.safety("typeassert", pc, ok, "type assertion holds")
		return val
	}
	out := Value{T: t.Type()}
	out.L = append(out.L, val.L...)
	out.L = append(out.L, ok)
	return out
}

// observerMethod: the uninterpreted spec function name is the observer of an interface method, i.e.
// some trusted contract  T.M  has  ensures result == name(self).  Returns the method name.
func (v *Verifier) observerMethod(name string) (method string, ok bool) {
	for _, fc := range v.cs.Funcs {
		if !fc.Trusted {
			continue
		}
		if uf := observerUF(fc); uf == name {
			if k := strings.LastIndex(fc.Name, "."); k >= 0 {
				return fc.Name[k+1:], true
			}
		}
	}
	return "", false
}

// observerUF returns the uninterpreted function an observer contract equates its result with.
func observerUF(fc *FuncContract) string {
	for _, c := range fc.Ensures {
		b, ok := c.Expr.(*SBin)
		if !ok || b.Op != "==" {
			continue
		}
		l, ok := b.L.(*SIdent)
		if !ok || l.Name != "result" {
			continue
		}
		call, ok := b.R.(*SCall)
		if !ok || len(call.Args) != 1 {
			continue
		}
		if a, ok := call.Args[0].(*SIdent); ok && (a.Name == "self" || a.Name == "recv") {
			return call.Fun
		}
	}
	return ""
}
