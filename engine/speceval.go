package main

// Evaluation of spec expressions into SMT terms.

import (
	"fmt"
	"go/constant"
	"go/token"
	"go/types"
	"math/big"
	"strconv"
	"strings"

	"golang.org/x/tools/go/ssa"
)

const tokLSS = token.LSS

type SV struct {
	V       Value
	Untyped bool // untyped integer constant; V.L[0] is an Int-sorted numeral
	Nil     bool
}

type Env struct {
	fx      *FnCtx
	st      *State
	oldEnv  *Env
	vars    map[string]SV
	lookup  func(name string) (SV, bool)
	result  []Value
	resNames map[string]int
	pkg     *types.Package
	depth   int
	preNAlloc *Term // allocation counter before the call/function (for fresh())
	inOld   bool
	nowEnv  *Env
	pc      *Term // path condition at the site (ghost sites)
	hint    types.Type // expected type of an ite whose branches are untyped constants (tail position of a spec func)
}

func (e *Env) child() *Env {
	n := *e
	n.vars = map[string]SV{}
	for k, v := range e.vars {
		n.vars[k] = v
	}
	return &n
}

func untypedSV(v *big.Int) SV {
	return SV{V: Value{T: types.Typ[types.UntypedInt], L: []*Term{IntBig(v)}}, Untyped: true}
}

func (fx *FnCtx) specFail(e SpecExpr, f string, a ...interface{}) {
	fx.fail("spec %s: %s", e.String(), fmt.Sprintf(f, a...))
}

func (fx *FnCtx) evalBool(env *Env, e SpecExpr) *Term {
	sv := fx.evalSpec(env, e)
	if len(sv.V.L) != 1 || sv.V.L[0].Sort != BoolSort {
		fx.specFail(e, "expected a boolean")
	}
	return sv.V.L[0]
}

// evalInt evaluates an integer spec expression to a term of the index sort (int, 64 bit).
func (fx *FnCtx) evalInt(env *Env, e SpecExpr) *Term { return fx.evalIdx(env, e) }

func (fx *FnCtx) evalIdx(env *Env, e SpecExpr) *Term {
	sv := fx.evalSpec(env, e)
	return fx.svToIdx(sv, e)
}

func (fx *FnCtx) svToIdx(sv SV, e SpecExpr) *Term {
	tc := fx.tc
	if sv.Untyped {
		return tc.IntConst(sv.V.L[0].Val, types.Typ[types.Int])
	}
	if !isIntType(sv.V.T) {
		fx.specFail(e, "expected an integer")
	}
	if tc.Mode == ModeInt {
		return sv.V.L[0]
	}
	return fx.toIdx(sv.V, sv.V.T)
}

func (fx *FnCtx) typed(sv SV, t types.Type) SV {
	if !sv.Untyped {
		return sv
	}
	if isFloatType(t) {
		return SV{V: Value{T: t, L: []*Term{Fresh("float", fx.tc.IdxSort())}}}
	}
	return SV{V: Value{T: t, L: []*Term{fx.tc.IntConst(sv.V.L[0].Val, t)}}}
}

func parseNum(s string) (*big.Int, bool) {
	v := new(big.Int)
	_, ok := v.SetString(s, 0)
	return v, ok
}

func (fx *FnCtx) resolveType(name string, pkg *types.Package) types.Type {
	if strings.HasPrefix(name, "[]") {
		return types.NewSlice(fx.resolveType(name[2:], pkg))
	}
	if strings.HasPrefix(name, "*") {
		return types.NewPointer(fx.resolveType(name[1:], pkg))
	}
	if strings.HasPrefix(name, "map[") {
		depth, k := 0, -1
		for i := 3; i < len(name); i++ {
			if name[i] == '[' {
				depth++
			} else if name[i] == ']' {
				depth--
				if depth == 0 {
					k = i
					break
				}
			}
		}
		if k < 0 {
			return nil
		}
		kt, vt := fx.resolveType(name[4:k], pkg), fx.resolveType(name[k+1:], pkg)
		if kt == nil || vt == nil {
			return nil
		}
		return types.NewMap(kt, vt)
	}
	if name == "byte" {
		return types.Typ[types.Uint8]
	}
	if o := types.Universe.Lookup(name); o != nil {
		if tn, ok := o.(*types.TypeName); ok {
			return tn.Type()
		}
	}
	if k := strings.Index(name, "."); k >= 0 {
		pn, tn := name[:k], name[k+1:]
		for _, p := range fx.V.prog.AllPackages() {
			if p.Pkg.Name() == pn {
				if o := p.Pkg.Scope().Lookup(tn); o != nil {
					if t, ok := o.(*types.TypeName); ok {
						return t.Type()
					}
				}
			}
		}
		return nil
	}
	if pkg != nil {
		if o := pkg.Scope().Lookup(name); o != nil {
			if tn, ok := o.(*types.TypeName); ok {
				return tn.Type()
			}
		}
	}
	return nil
}

func (fx *FnCtx) lookupSpecFunc(env *Env, name string) *SpecFunc {
	if fx.root != nil && fx.root.top != nil && fx.root.top.fc != nil {
		if sf, ok := fx.root.top.fc.LocalSpecs[name]; ok {
			return sf
		}
	}
	if env.pkg != nil {
		if sf, ok := fx.V.cs.Specs[env.pkg.Path()+"."+name]; ok {
			return sf
		}
	}
	// a name not defined in the package itself: the definition of another package; when several
	// packages define it, the one with the smallest package path (a fixed choice, not map order)
	var found *SpecFunc
	foundKey := ""
	for k, sf := range fx.V.cs.Specs {
		if strings.HasSuffix(k, "."+name) {
			if found == nil || k < foundKey {
				found, foundKey = sf, k
			}
		}
	}
	return found
}

func (fx *FnCtx) evalSpec(env *Env, e SpecExpr) SV {
	tc := fx.tc
	hint := env.hint
	env.hint = nil
	if c, ok := e.(*SCall); ok && c.Fun == "ite" && len(c.Args) == 3 {
		cond := fx.evalBool(env, c.Args[0])
		env.hint = hint
		a := fx.evalSpec(env, c.Args[1])
		env.hint = hint
		b := fx.evalSpec(env, c.Args[2])
		env.hint = nil
		if a.Untyped && b.Untyped {
			t := types.Type(types.Typ[types.Int])
			if hint != nil && isIntType(hint) {
				t = hint
			}
			a = fx.typed(a, t)
			b = fx.typed(b, t)
		}
		if a.Untyped {
			a = fx.typed(a, b.V.T)
		}
		if b.Untyped {
			b = fx.typed(b, a.V.T)
		}
		m, err := iteValue(cond, a.V, b.V)
		if err != nil {
			fx.specFail(e, "%v", err)
		}
		return SV{V: m}
	}
	switch x := e.(type) {
	case *SNum:
		v, ok := parseNum(x.Text)
		if !ok {
			fx.specFail(e, "bad number")
		}
		return untypedSV(v)
	case *SChar:
		return untypedSV(big.NewInt(int64(x.Val)))
	case *SStr:
		return SV{V: fx.stringConst(x.Val, types.Typ[types.String])}
	case *SIdent:
		return fx.evalIdent(env, x)
	case *SUn:
		a := fx.evalSpec(env, x.X)
		switch x.Op {
		case "*":
			// *p: the value the pointer p refers to, in the state of the environment
			pt, ok := a.V.T.Underlying().(*types.Pointer)
			if !ok {
				fx.specFail(x, "* applied to a non-pointer")
			}
			p := fx.asPtr(a.V)
			v := fx.Load(env.st, p)
			v.T = pt.Elem()
			fx.groundFacts(v)
			return SV{V: v}
		case "!":
			return SV{V: Value{T: types.Typ[types.Bool], L: []*Term{Not(a.V.L[0])}}}
		case "-":
			if a.Untyped {
				return untypedSV(new(big.Int).Neg(a.V.L[0].Val))
			}
			if tc.Mode == ModeBV {
				return SV{V: Value{T: a.V.T, L: []*Term{BVNeg(a.V.L[0])}}}
			}
			return SV{V: Value{T: a.V.T, L: []*Term{INeg(a.V.L[0])}}}
		case "^":
			if a.Untyped {
				return untypedSV(new(big.Int).Not(a.V.L[0].Val))
			}
			if tc.Mode == ModeBV {
				return SV{V: Value{T: a.V.T, L: []*Term{BVNot(a.V.L[0])}}}
			}
			_, signed, _ := intInfo(a.V.T)
			if signed {
				return SV{V: Value{T: a.V.T, L: []*Term{ISub(INeg(a.V.L[0]), IntNum(1))}}}
			}
			_, hi := typeRange(a.V.T)
			return SV{V: Value{T: a.V.T, L: []*Term{ISub(IntBig(hi), a.V.L[0])}}}
		}
	case *SBin:
		return fx.evalBin(env, x)
	case *SCall:
		return fx.evalCall(env, x)
	case *SIndex:
		base := fx.evalSpec(env, x.X)
		if m, ok := base.V.T.(*types.Map); ok && len(base.V.L) == 1 && base.V.L[0].Sort.Kind == SArray {
			// ghost map
			key := fx.typed(fx.evalSpec(env, x.I), m.Key())
			if key.V.L[0].Sort != base.V.L[0].Sort.Idx {
				fx.specFail(e, "ghost map key type mismatch")
			}
			return SV{V: Value{T: m.Elem(), L: []*Term{Select(base.V.L[0], key.V.L[0])}}}
		}
		if _, ok := base.V.T.Underlying().(*types.Map); ok && len(base.V.L) == 1 && base.V.L[0].Sort.Kind != SArray {
			// a real map: the stored value (meaningful when has(m, k))
			mh := fx.mapInfo(base.V.T)
			key := fx.typed(fx.evalSpec(env, x.I), mh.mt.Key())
			k := fx.mapKey(mh, key.V)
			out := Value{T: mh.mt.Elem()}
			for _, n := range mh.vals {
				out.L = append(out.L, Select(Select(fx.mapHeap(env.st, n), base.V.L[0]), k))
			}
			return SV{V: out}
		}
		idx := fx.evalIdx(env, x.I)
		switch u := base.V.T.Underlying().(type) {
		case *types.Slice:
			v := fx.readElem(env.st, u.Elem(), base.V.L[0], tc.IdxAdd(base.V.L[1], idx))
			fx.groundFacts(v)
			return SV{V: v}
		case *types.Basic:
			if u.Info()&types.IsString != 0 {
				v := fx.readElem(env.st, types.Typ[types.Uint8], base.V.L[0], tc.IdxAdd(base.V.L[1], idx))
				return SV{V: v}
			}
		case *types.Array:
			out := Value{T: u.Elem(), L: make([]*Term, len(base.V.L))}
			for i, l := range base.V.L {
				out.L[i] = Select(l, idx)
			}
			return SV{V: out}
		case *types.Pointer:
			if at, ok := u.Elem().Underlying().(*types.Array); ok {
				p := fx.asPtr(base.V)
				if p.Kind == PElem && p.Idx == nil {
					return SV{V: fx.readElem(env.st, at.Elem(), p.Arr, idx)}
				}
			}
		}
		fx.specFail(e, "cannot index %v", base.V.T)
	case *SSlice:
		base := fx.evalSpec(env, x.X)
		if _, ok := base.V.T.Underlying().(*types.Slice); !ok {
			fx.specFail(e, "cannot slice %v", base.V.T)
		}
		lo := tc.IdxNum(0)
		hi := base.V.L[2]
		if x.Lo != nil {
			lo = fx.evalIdx(env, x.Lo)
		}
		if x.Hi != nil {
			hi = fx.evalIdx(env, x.Hi)
		}
		return SV{V: fx.mkSlice(base.V.T, base.V.L[0], tc.IdxAdd(base.V.L[1], lo), tc.IdxSub(hi, lo), tc.IdxSub(base.V.L[3], lo))}
	case *SField:
		return fx.evalField(env, x)
	case *SQuant:
		return fx.evalQuant(env, x)
	case *svHolder:
		return x.sv
	}
	fx.specFail(e, "unsupported expression")
	return SV{}
}

// groundFacts assumes the type-range facts of ground leaves read from memory by a spec expression.
func (fx *FnCtx) groundFacts(v Value) {
	if v.T == nil || v.P != nil {
		return
	}
	lay := fx.tc.Layout(v.T)
	for i, l := range lay.Leaves {
		if i >= len(v.L) || v.L[i].hasBnd || v.L[i].Sort.Kind == SArray {
			continue
		}
		for _, f := range fx.tc.leafFacts(l, v.L[i]) {
			fx.assume(f)
		}
	}
	for _, l := range v.L {
		if l.hasBnd {
			return
		}
	}
	// slices held in memory have 0 <= len <= cap and bounded sizes
	fx.sliceShape(v, v.T, 0, True)
}

func (fx *FnCtx) evalIdent(env *Env, x *SIdent) SV {
	name := x.Name
	if v, ok := env.vars[name]; ok {
		return v
	}
	switch name {
	case "true":
		return SV{V: Value{T: types.Typ[types.Bool], L: []*Term{True}}}
	case "false":
		return SV{V: Value{T: types.Typ[types.Bool], L: []*Term{False}}}
	case "nil":
		return SV{Nil: true, V: Value{T: types.Typ[types.UntypedNil]}}
	case "result":
		if len(env.result) == 0 {
			fx.specFail(x, "no result here")
		}
		if len(env.result) == 1 {
			return SV{V: env.result[0]}
		}
		// tuple value
		var out Value
		var vars []*types.Var
		for _, r := range env.result {
			rr := r
			if rr.P != nil {
				rr = fx.storable(rr)
			}
			out.L = append(out.L, rr.L...)
			vars = append(vars, types.NewVar(token.NoPos, nil, "", r.T))
		}
		out.T = types.NewTuple(vars...)
		return SV{V: out}
	}
	if strings.HasPrefix(name, "result") {
		if k, err := strconv.Atoi(name[6:]); err == nil && k < len(env.result) {
			return SV{V: env.result[k]}
		}
	}
	if k, ok := env.resNames[name]; ok && k < len(env.result) {
		return SV{V: env.result[k]}
	}
	if env.lookup != nil {
		if v, ok := env.lookup(name); ok {
			return v
		}
	}
	if g, ok := env.st.Ghost[name]; ok {
		return SV{V: g}
	}
	// package-level constants
	if env.pkg != nil {
		if o := env.pkg.Scope().Lookup(name); o != nil {
			if c, ok := o.(*types.Const); ok {
				return fx.constSV(c)
			}
		}
	}
	fx.specFail(x, "unknown identifier %q", name)
	return SV{}
}

func (fx *FnCtx) constSV(c *types.Const) SV {
	if c.Val().Kind() == constant.Int {
		v, _ := new(big.Int).SetString(c.Val().ExactString(), 10)
		if b, ok := c.Type().Underlying().(*types.Basic); ok && b.Info()&types.IsUntyped != 0 {
			return untypedSV(v)
		}
		return SV{V: Value{T: c.Type(), L: []*Term{fx.tc.IntConst(v, c.Type())}}}
	}
	if c.Val().Kind() == constant.Bool {
		return SV{V: Value{T: types.Typ[types.Bool], L: []*Term{Bool(constant.BoolVal(c.Val()))}}}
	}
	fx.fail("unsupported constant %s in spec", c.Name())
	return SV{}
}

func (fx *FnCtx) evalField(env *Env, x *SField) SV {
	tc := fx.tc
	// qualified constant pkg.Name
	if id, ok := x.X.(*SIdent); ok {
		if _, isVar := env.vars[id.Name]; !isVar {
			for _, p := range fx.V.prog.AllPackages() {
				if p.Pkg.Name() == id.Name {
					if o := p.Pkg.Scope().Lookup(x.Name); o != nil {
						if c, ok := o.(*types.Const); ok {
							if env.lookup != nil {
								if _, shadow := env.lookup(id.Name); shadow {
									break
								}
							}
							return fx.constSV(c)
						}
						if _, ok := o.(*types.Var); ok {
							// a package-level variable of another package (io.EOF): its current value
							if g, ok := p.Members[x.Name].(*ssa.Global); ok {
								return SV{V: fx.globalValue(env.st, g)}
							}
						}
					}
				}
			}
		}
	}
	base := fx.evalSpec(env, x.X)
	t := base.V.T
	// tuple component result.0
	if tup, ok := t.(*types.Tuple); ok {
		k, err := strconv.Atoi(x.Name)
		if err != nil || k >= tup.Len() {
			fx.specFail(x, "bad tuple index")
		}
		off := 0
		for i := 0; i < k; i++ {
			off += len(tc.Layout(tup.At(i).Type()).Leaves)
		}
		n := len(tc.Layout(tup.At(k).Type()).Leaves)
		return SV{V: Value{T: tup.At(k).Type(), L: base.V.L[off : off+n]}}
	}
	// pseudo-fields of slices
	if _, ok := t.Underlying().(*types.Slice); ok {
		switch x.Name {
		case "id":
			return SV{V: Value{T: types.Typ[types.Int], L: []*Term{base.V.L[0]}}}
		case "off":
			return SV{V: Value{T: types.Typ[types.Int], L: []*Term{base.V.L[1]}}}
		}
	}
	if pt, ok := t.Underlying().(*types.Pointer); ok {
		stt, ok := pt.Elem().Underlying().(*types.Struct)
		if !ok {
			fx.specFail(x, "field of pointer to non-struct")
		}
		p := fx.asPtr(base.V)
		for k := 0; k < stt.NumFields(); k++ {
			if stt.Field(k).Name() == x.Name && embeddedFields[stt.Field(k)] {
				// an embedded object: the expression denotes (a pointer to) that object
				ep := fx.embeddedPtr(p, stt, k)
				return SV{V: Value{T: types.NewPointer(stt.Field(k).Type()), P: ep}}
			}
			if stt.Field(k).Name() == x.Name {
				off, _ := tc.fieldRange(stt, k)
				np := *p
				np.Off = p.Off + off
				np.Typ = stt.Field(k).Type()
				v := fx.Load(env.st, &np)
				fx.groundFacts(v)
				return SV{V: v}
			}
		}
		fx.specFail(x, "no field %s", x.Name)
	}
	if stt, ok := t.Underlying().(*types.Struct); ok {
		for k := 0; k < stt.NumFields(); k++ {
			if stt.Field(k).Name() == x.Name {
				off, n := tc.fieldRange(stt, k)
				return SV{V: Value{T: stt.Field(k).Type(), L: base.V.L[off : off+n]}}
			}
		}
		fx.specFail(x, "no field %s", x.Name)
	}
	fx.specFail(x, "field access on %v", t)
	return SV{}
}

func (fx *FnCtx) evalBin(env *Env, x *SBin) SV {
	tc := fx.tc
	boolSV := func(t *Term) SV { return SV{V: Value{T: types.Typ[types.Bool], L: []*Term{t}}} }
	switch x.Op {
	case "&&":
		return boolSV(And(fx.evalBool(env, x.L), fx.evalBool(env, x.R)))
	case "||":
		return boolSV(Or(fx.evalBool(env, x.L), fx.evalBool(env, x.R)))
	case "==>":
		return boolSV(Implies(fx.evalBool(env, x.L), fx.evalBool(env, x.R)))
	case "<==>":
		return boolSV(Eq(fx.evalBool(env, x.L), fx.evalBool(env, x.R)))
	}
	a := fx.evalSpec(env, x.L)
	b := fx.evalSpec(env, x.R)
	if x.Op == "==" || x.Op == "!=" {
		eq := fx.specEqual(x, a, b)
		if x.Op == "!=" {
			eq = Not(eq)
		}
		return boolSV(eq)
	}
	// shifts: right operand independent
	if x.Op == "<<" || x.Op == ">>" {
		return fx.specShift(x, a, b)
	}
	if a.Untyped && b.Untyped {
		u, v := a.V.L[0].Val, b.V.L[0].Val
		r := new(big.Int)
		switch x.Op {
		case "+":
			r.Add(u, v)
		case "-":
			r.Sub(u, v)
		case "*":
			r.Mul(u, v)
		case "/":
			if v.Sign() == 0 {
				fx.specFail(x, "division by zero")
			}
			r.Quo(u, v)
		case "%":
			if v.Sign() == 0 {
				fx.specFail(x, "division by zero")
			}
			r.Rem(u, v)
		case "&":
			r.And(u, v)
		case "|":
			r.Or(u, v)
		case "^":
			r.Xor(u, v)
		case "&^":
			r.AndNot(u, v)
		case "<":
			return boolSV(Bool(u.Cmp(v) < 0))
		case "<=":
			return boolSV(Bool(u.Cmp(v) <= 0))
		case ">":
			return boolSV(Bool(u.Cmp(v) > 0))
		case ">=":
			return boolSV(Bool(u.Cmp(v) >= 0))
		default:
			fx.specFail(x, "unsupported operator")
		}
		return untypedSV(r)
	}
	if a.Untyped {
		a = fx.typed(a, b.V.T)
	}
	if b.Untyped {
		b = fx.typed(b, a.V.T)
	}
	if isBoolType(a.V.T) {
		fx.specFail(x, "operator %s on booleans", x.Op)
	}
	if !isIntType(a.V.T) || !isIntType(b.V.T) {
		fx.specFail(x, "operator %s on %v and %v", x.Op, a.V.T, b.V.T)
	}
	rt := a.V.T
	p, q := a.V.L[0], b.V.L[0]
	wa, sa, _ := intInfo(a.V.T)
	wb, sb, _ := intInfo(b.V.T)
	if tc.Mode == ModeBV {
		if wa != wb {
			fx.specFail(x, "operands have different widths (%v, %v): add a conversion", a.V.T, b.V.T)
		}
		if sa != sb {
			switch x.Op {
			case "<", "<=", ">", ">=", "/", "%":
				fx.specFail(x, "operands differ in signedness (%v, %v): add a conversion", a.V.T, b.V.T)
			}
		}
		signed := sa
		mk1 := func(t *Term) SV { return SV{V: Value{T: rt, L: []*Term{t}}} }
		switch x.Op {
		case "+":
			return mk1(bvBin("bvadd", p, q))
		case "-":
			return mk1(bvBin("bvsub", p, q))
		case "*":
			return mk1(bvBin("bvmul", p, q))
		case "/":
			if signed {
				return mk1(mk("bvsdiv", p.Sort, p, q))
			}
			return mk1(bvBin("bvudiv", p, q))
		case "%":
			if signed {
				return mk1(mk("bvsrem", p.Sort, p, q))
			}
			return mk1(bvBin("bvurem", p, q))
		case "&":
			return mk1(bvBin("bvand", p, q))
		case "|":
			return mk1(bvBin("bvor", p, q))
		case "^":
			return mk1(bvBin("bvxor", p, q))
		case "&^":
			return mk1(bvBin("bvand", p, BVNot(q)))
		case "<", "<=", ">", ">=":
			pre := "bvu"
			if signed {
				pre = "bvs"
			}
			suf := map[string]string{"<": "lt", "<=": "le", ">": "gt", ">=": "ge"}[x.Op]
			return boolSV(BVCmp(pre+suf, p, q))
		}
		fx.specFail(x, "unsupported operator")
	}
	// int mode: mathematical integers. The nominal type is the wider/"more signed" one.
	if wb > wa || (wb == wa && sb && !sa) {
		rt = b.V.T
	}
	mk1 := func(t *Term) SV {
		// results of arithmetic are mathematical ints: give them type int to avoid spurious wrap on later conversions
		return SV{V: Value{T: rt, L: []*Term{t}}}
	}
	switch x.Op {
	case "+":
		return mk1(IAdd(p, q))
	case "-":
		return mk1(ISub(p, q))
	case "*":
		return mk1(IMul(p, q))
	case "/":
		return mk1(truncDiv(p, q))
	case "%":
		return mk1(ISub(p, IMul(q, truncDiv(p, q))))
	case "<":
		return boolSV(ILt(p, q))
	case "<=":
		return boolSV(ILe(p, q))
	case ">":
		return boolSV(ILt(q, p))
	case ">=":
		return boolSV(ILe(q, p))
	case "&":
		if m, ok := lowMask(q); ok {
			return mk1(IModE(p, m))
		}
		if m, ok := lowMask(p); ok {
			return mk1(IModE(q, m))
		}
		if r, ok := andConstMask(p, q); ok {
			return mk1(r)
		}
		if r, ok := andConstMask(q, p); ok {
			return mk1(r)
		}
		return mk1(fx.bitUF("bitand", p, q, rt))
	case "|":
		if r, ok := fx.disjointOr(a.V, b.V, rt); ok {
			return mk1(r)
		}
		return mk1(fx.bitUF("bitor", p, q, rt))
	case "^":
		return mk1(fx.bitUF("bitxor", p, q, rt))
	case "&^":
		return mk1(fx.bitUF("bitandnot", p, q, rt))
	}
	fx.specFail(x, "unsupported operator")
	return SV{}
}

func (fx *FnCtx) specShift(x *SBin, a, b SV) SV {
	tc := fx.tc
	if a.Untyped && b.Untyped {
		k := uint(b.V.L[0].Val.Int64())
		if x.Op == "<<" {
			return untypedSV(new(big.Int).Lsh(a.V.L[0].Val, k))
		}
		return untypedSV(new(big.Int).Rsh(a.V.L[0].Val, k))
	}
	if a.Untyped {
		a = fx.typed(a, types.Typ[types.Int])
	}
	rt := a.V.T
	w, signed, ok := intInfo(rt)
	if !ok {
		fx.specFail(x, "shift of non-integer")
	}
	mk1 := func(t *Term) SV { return SV{V: Value{T: rt, L: []*Term{t}}} }
	if tc.Mode == ModeBV {
		var amt *Term
		if b.Untyped {
			amt = BVBig(b.V.L[0].Val, w)
			if b.V.L[0].Val.Cmp(big.NewInt(int64(w))) >= 0 {
				amt = BVNum(int64(w), w)
			}
		} else {
			wy, _, _ := intInfo(b.V.T)
			q := b.V.L[0]
			switch {
			case wy == w:
				amt = q
			case wy < w:
				amt = BVZeroExt(w-wy, q)
			default:
				amt = Ite(BVCmp("bvuge", q, BVNum(int64(w), wy)), BVNum(int64(w), w), BVExtract(w-1, 0, q))
			}
		}
		if x.Op == "<<" {
			return mk1(bvBin("bvshl", a.V.L[0], amt))
		}
		if signed {
			return mk1(mk("bvashr", a.V.L[0].Sort, a.V.L[0], amt))
		}
		return mk1(bvBin("bvlshr", a.V.L[0], amt))
	}
	var p2 *Term
	if b.Untyped || b.V.L[0].IsNum() {
		p2 = IntBig(new(big.Int).Lsh(big.NewInt(1), uint(b.V.L[0].Val.Int64())))
	} else {
		f := DeclareUF("pow2", []*Sort{IntSort}, IntSort)
		p2 = f.App(b.V.L[0])
		if !fx.root.heapAxiomDone[p2] {
			fx.root.heapAxiomDone[p2] = true
			for k := 0; k <= 64; k++ {
				fx.root.axioms = append(fx.root.axioms, Eq(f.App(IntNum(int64(k))), IntBig(new(big.Int).Lsh(big.NewInt(1), uint(k)))))
			}
		}
	}
	if x.Op == "<<" {
		return mk1(IMul(a.V.L[0], p2))
	}
	return mk1(IDivE(a.V.L[0], p2))
}

func (fx *FnCtx) specEqual(x SpecExpr, a, b SV) *Term {
	tc := fx.tc
	if a.Nil && b.Nil {
		return True
	}
	if b.Nil {
		a, b = b, a
	}
	if a.Nil {
		// b == nil
		if b.V.P != nil {
			return fx.ptrIsNil(b.V.P)
		}
		switch b.V.T.Underlying().(type) {
		case *types.Slice, *types.Pointer, *types.Map, *types.Interface, *types.Signature, *types.Chan:
			return Eq(b.V.L[0], tc.IdxNum(0))
		}
		fx.specFail(x, "comparison of %v with nil", b.V.T)
	}
	if a.Untyped && b.Untyped {
		return Bool(a.V.L[0].Val.Cmp(b.V.L[0].Val) == 0)
	}
	if a.Untyped {
		a = fx.typed(a, b.V.T)
	}
	if b.Untyped {
		b = fx.typed(b, a.V.T)
	}
	if a.V.P != nil || b.V.P != nil {
		return fx.valuesEqual(a.V, b.V, a.V.T, b.V.T)
	}
	if len(a.V.L) != len(b.V.L) {
		fx.specFail(x, "comparison of %v and %v", a.V.T, b.V.T)
	}
	if isStringType(a.V.T) && isStringType(b.V.T) && len(a.V.L) == 3 && len(b.V.L) == 3 {
		// strings compare by content (its identity is strKey), as == does in the code
		return fx.stringsEqual(a.V, b.V)
	}
	if _, ok := a.V.T.Underlying().(*types.Slice); ok {
		// same view: same array, offset and length
		return And(Eq(a.V.L[0], b.V.L[0]), Eq(a.V.L[1], b.V.L[1]), Eq(a.V.L[2], b.V.L[2]))
	}
	var cs []*Term
	for i := range a.V.L {
		p, q := a.V.L[i], b.V.L[i]
		if p.Sort != q.Sort {
			fx.specFail(x, "comparison of %v and %v (different representations; add a conversion)", a.V.T, b.V.T)
		}
		cs = append(cs, Eq(p, q))
	}
	return And(cs...)
}

func (fx *FnCtx) specConvert(x SpecExpr, a SV, to types.Type) SV {
	tc := fx.tc
	if a.Untyped {
		if isIntType(to) {
			v := a.V.L[0].Val
			if tc.Mode == ModeInt {
				lo, hi := typeRange(to)
				if v.Cmp(lo) < 0 || v.Cmp(hi) > 0 {
					return SV{V: Value{T: to, L: []*Term{wrapInt(IntBig(v), to)}}}
				}
			}
			return fx.typed(a, to)
		}
		fx.specFail(x, "conversion of constant to %v", to)
	}
	if isIntType(a.V.T) && isIntType(to) {
		return SV{V: Value{T: to, L: []*Term{fx.convInt(True, a.V.L[0], a.V.T, to, false)}}}
	}
	if len(tc.Layout(a.V.T).Leaves) == len(tc.Layout(to).Leaves) {
		v := a.V
		v.T = to
		return SV{V: v}
	}
	fx.specFail(x, "unsupported conversion %v -> %v", a.V.T, to)
	return SV{}
}

func (fx *FnCtx) evalCall(env *Env, x *SCall) SV {
	tc := fx.tc
	boolSV := func(t *Term) SV { return SV{V: Value{T: types.Typ[types.Bool], L: []*Term{t}}} }
	intSV := func(t *Term) SV { return SV{V: Value{T: types.Typ[types.Int], L: []*Term{t}}} }
	switch x.Fun {
	case "old":
		if env.inOld {
			// old() inside old(): already evaluating in the pre-state
			return fx.evalSpec(env, x.Args[0])
		}
		if env.oldEnv == nil {
			fx.specFail(x, "old() is not available here")
		}
		o := *env.oldEnv
		o.inOld = true
		o.nowEnv = env
		// bound variables of enclosing quantifiers stay visible
		o.vars = map[string]SV{}
		for k, v := range env.oldEnv.vars {
			o.vars[k] = v
		}
		for k, v := range env.vars {
			if _, shadow := o.vars[k]; !shadow {
				o.vars[k] = v
			}
		}
		return fx.evalSpec(&o, x.Args[0])
	case "now":
		// inside old(): evaluate the argument in the current state again (e.g. an index computed from current values)
		if env.nowEnv == nil {
			return fx.evalSpec(env, x.Args[0])
		}
		n := *env.nowEnv
		n.vars = map[string]SV{}
		for k, v := range env.nowEnv.vars {
			n.vars[k] = v
		}
		for k, v := range env.vars {
			if _, shadow := n.vars[k]; !shadow {
				n.vars[k] = v
			}
		}
		return fx.evalSpec(&n, x.Args[0])
	case "len", "cap":
		a := fx.evalSpec(env, x.Args[0])
		switch u := a.V.T.Underlying().(type) {
		case *types.Slice:
			if x.Fun == "len" {
				return intSV(a.V.L[2])
			}
			return intSV(a.V.L[3])
		case *types.Basic:
			if u.Info()&types.IsString != 0 {
				return intSV(a.V.L[2])
			}
		case *types.Array:
			return intSV(tc.IdxNum(u.Len()))
		case *types.Map:
			return intSV(fx.mapLen(env.st, a.V))
		}
		fx.specFail(x, "len of %v", a.V.T)
	case "ite":
		c := fx.evalBool(env, x.Args[0])
		a := fx.evalSpec(env, x.Args[1])
		b := fx.evalSpec(env, x.Args[2])
		if a.Untyped && b.Untyped {
			a = fx.typed(a, types.Typ[types.Int])
			b = fx.typed(b, types.Typ[types.Int])
		}
		if a.Untyped {
			a = fx.typed(a, b.V.T)
		}
		if b.Untyped {
			b = fx.typed(b, a.V.T)
		}
		m, err := iteValue(c, a.V, b.V)
		if err != nil {
			fx.specFail(x, "%v", err)
		}
		return SV{V: m}
	case "min", "max":
		a := fx.evalSpec(env, x.Args[0])
		b := fx.evalSpec(env, x.Args[1])
		lt := fx.evalSpecBinSV(env, x, "<", a, b)
		if a.Untyped {
			a = fx.typed(a, b.V.T)
		}
		if b.Untyped {
			b = fx.typed(b, a.V.T)
		}
		if a.Untyped {
			a = fx.typed(a, types.Typ[types.Int])
			b = fx.typed(b, types.Typ[types.Int])
		}
		if x.Fun == "min" {
			return SV{V: Value{T: a.V.T, L: []*Term{Ite(lt, a.V.L[0], b.V.L[0])}}}
		}
		return SV{V: Value{T: a.V.T, L: []*Term{Ite(lt, b.V.L[0], a.V.L[0])}}}
	case "fresh":
		a := fx.evalSpec(env, x.Args[0])
		if env.preNAlloc == nil {
			fx.specFail(x, "fresh() only in postconditions")
		}
		var id *Term
		if a.V.P != nil && a.V.P.Kind == PObj {
			id = a.V.P.Ref
		} else {
			id = a.V.L[0]
		}
		return boolSV(And(tc.IdxLe(env.preNAlloc, id), tc.IdxLt(id, env.st.NAlloc)))
	case "at":
		// at(s, k): element at absolute index k of the backing array of slice s (s[i] is at(s, s.off+i)).
		// Quantifying over the absolute index keeps the bound variable bare inside the array read.
		a := fx.evalSpec(env, x.Args[0])
		k := fx.evalIdx(env, x.Args[1])
		sl, ok := a.V.T.Underlying().(*types.Slice)
		if !ok {
			fx.specFail(x, "at() needs a slice")
		}
		return SV{V: fx.readElem(env.st, sl.Elem(), a.V.L[0], k)}
	case "visited":
		// visited(N, k): key k has already been produced by the map iterator advanced in the header of loop N
		nn, ok := x.Args[0].(*SNum)
		if !ok {
			fx.specFail(x, "visited(loop ordinal, key)")
		}
		ord, _ := strconv.Atoi(nn.Text)
		top := fx.root.top
		if top == nil || top.loops == nil || ord >= len(top.loops.loops) {
			fx.specFail(x, "visited: no loop %d", ord)
		}
		var rng *ssa.Range
		for _, ins := range top.loops.loops[ord].header.Instrs {
			if nx, ok := ins.(*ssa.Next); ok {
				rng, _ = nx.Iter.(*ssa.Range)
			}
		}
		if rng == nil {
			fx.specFail(x, "visited: loop %d does not range over a map", ord)
		}
		g, ok := env.st.Ghost[top.iterName(rng)]
		if !ok {
			fx.specFail(x, "visited: iterator not started here")
		}
		mh := fx.mapInfo(rng.X.Type())
		key := fx.typed(fx.evalSpec(env, x.Args[1]), mh.mt.Key())
		return boolSV(Select(g.L[0], fx.mapKey(mh, key.V)))
	}
	if fx.V.cs.GhostFields[x.Fun] && len(x.Args) == 1 {
		return intSV(Select(fx.ghostHeap(env.st, "G:"+x.Fun), fx.ghostOwner(x, fx.evalSpec(env, x.Args[0]).V)))
	}
	switch x.Fun {
	case "lockstate":
		// lockstate(m): ghost state of the sync.Mutex/RWMutex object m points to:
		// 0 free, -1 write-locked, n > 0 read-locked n times
		m := fx.evalSpec(env, x.Args[0])
		p := fx.asPtr(m.V)
		if p.Kind != PObj || p.Off != 0 {
			fx.specFail(x, "lockstate needs a pointer to a mutex object (declare the mutex field embedded)")
		}
		return intSV(Select(fx.ghostHeap(env.st, "G:lock"), p.Ref))
	case "has":
		// has(m, k): key k is present in map m
		m := fx.evalSpec(env, x.Args[0])
		if _, ok := m.V.T.Underlying().(*types.Map); !ok {
			fx.specFail(x, "has() needs a map")
		}
		mh := fx.mapInfo(m.V.T)
		key := fx.typed(fx.evalSpec(env, x.Args[1]), mh.mt.Key())
		return boolSV(Select(Select(fx.mapHeap(env.st, mh.dom), m.V.L[0]), fx.mapKey(mh, key.V)))
	case "sameArray":
		a := fx.evalSpec(env, x.Args[0])
		b := fx.evalSpec(env, x.Args[1])
		return boolSV(And(Eq(a.V.L[0], b.V.L[0]), Eq(a.V.L[1], b.V.L[1])))
	case "sameBacking":
		// sameBacking(a, b): the two slices are views of one allocation (whatever their offsets)
		a := fx.evalSpec(env, x.Args[0])
		b := fx.evalSpec(env, x.Args[1])
		return boolSV(Eq(a.V.L[0], b.V.L[0]))
	case "div": // floor division (SMT semantics for positive divisor)
		a := fx.evalIdx(env, x.Args[0])
		b := fx.evalIdx(env, x.Args[1])
		if tc.Mode == ModeBV {
			return intSV(mk("bvsdiv", a.Sort, a, b))
		}
		return intSV(IDivE(a, b))
	case "mod":
		a := fx.evalIdx(env, x.Args[0])
		b := fx.evalIdx(env, x.Args[1])
		if tc.Mode == ModeBV {
			return intSV(mk("bvsmod", a.Sort, a, b))
		}
		return intSV(IModE(a, b))
	}
	// conversion?
	if t := fx.resolveType(x.Fun, env.pkg); t != nil && len(x.Args) == 1 {
		a := fx.evalSpec(env, x.Args[0])
		return fx.specConvert(x, a, t)
	}
	// spec function
	sf := fx.lookupSpecFunc(env, x.Fun)
	if sf == nil {
		fx.specFail(x, "unknown function %q", x.Fun)
	}
	if len(sf.Params) != len(x.Args) {
		fx.specFail(x, "wrong number of arguments to %s", x.Fun)
	}
	if env.depth > 24 {
		fx.specFail(x, "spec function recursion too deep")
	}
	spkg := env.pkg
	for _, p := range fx.V.prog.AllPackages() {
		if p.Pkg.Path() == sf.Pkg {
			spkg = p.Pkg
		}
	}
	sub := &Env{fx: fx, st: env.st, oldEnv: nil, vars: map[string]SV{}, pkg: spkg, depth: env.depth + 1, preNAlloc: env.preNAlloc}
	var argTerms []*Term
	var argSorts []*Sort
	for i, p := range sf.Params {
		a := fx.evalSpec(env, x.Args[i])
		pt := fx.resolveType(p.Type, spkg)
		if pt == nil {
			fx.specFail(x, "unknown parameter type %q of %s", p.Type, sf.Name)
		}
		if a.Untyped {
			a = fx.typed(a, pt)
		} else if isIntType(pt) && isIntType(a.V.T) && tc.Mode == ModeBV {
			wa, _, _ := intInfo(a.V.T)
			wp, _, _ := intInfo(pt)
			if wa != wp {
				fx.specFail(x, "argument %d of %s: %v passed for %v", i, sf.Name, a.V.T, pt)
			}
			a.V.T = pt
		} else if isIntType(pt) {
			a.V.T = pt
		}
		sub.vars[p.Name] = a
		for _, l := range a.V.L {
			argTerms = append(argTerms, l)
			argSorts = append(argSorts, l.Sort)
		}
	}
	rtyp := fx.resolveType(sf.Ret, spkg)
	if rtyp == nil {
		fx.specFail(x, "unknown result type %q of %s", sf.Ret, sf.Name)
	}
	if sf.Uninterp {
		lay := tc.Layout(rtyp)
		out := Value{T: rtyp}
		for _, lf := range lay.Leaves {
			f := DeclareUF("uf_"+tc.Mode.String()+"_"+sf.Name+lf.Path, argSorts, lf.Sort)
			app := f.App(argTerms...)
			out.L = append(out.L, app)
			// the result has the declared Go type: its range (int mode) holds for every argument
			marker := Sym("ufrange$"+f.Name, BoolSort)
			if facts := tc.leafFacts(lf, app); len(facts) > 0 && !fx.root.heapAxiomDone[marker] && len(argSorts) > 0 {
				fx.root.heapAxiomDone[marker] = true
				var bvs []*Term
				for i, s := range argSorts {
					bvs = append(bvs, BoundVar(fmt.Sprintf("u%d", i), s))
				}
				ga := f.App(bvs...)
				for _, fct := range tc.leafFacts(lf, ga) {
					fx.root.axioms = append(fx.root.axioms, Forall(bvs, fct, []*Term{ga}))
				}
			}
			if !app.hasBnd {
				for _, fct := range tc.leafFacts(lf, app) {
					fx.root.axioms = append(fx.root.axioms, fct)
				}
			}
		}
		return SV{V: out}
	}
	if sf.Macro {
		m := env.child()
		for k, v := range sub.vars {
			m.vars[k] = v
		}
		m.hint = rtyp
		r := fx.evalSpec(m, sf.Body)
		if r.Untyped {
			r = fx.typed(r, rtyp)
		}
		return r
	}
	if sf.EntryState && fx.root.entry != nil {
		sub.st = fx.root.entry
	}
	if sf.Local {
		top := fx.root.top
		sub.lookup = func(name string) (SV, bool) { return top.lookupEntryVar(name, fx.root.entry) }
	}
	if sf.Opaque && fx.root.boundedK == 0 {
		return fx.opaqueCall(x, sf, sub, spkg, rtyp, argTerms, argSorts)
	}
	if sf.Opaque && env.depth > 6 {
		// bounded instance search unfolds (possibly recursive) opaque functions a few levels and leaves
		// the rest uninterpreted; models found this way are only candidates, confirmed by replay
		lay := tc.Layout(rtyp)
		if len(lay.Leaves) == 1 {
			f := DeclareUF("sfb_"+tc.Mode.String()+"_"+sf.Name, argSorts, lay.Leaves[0].Sort)
			return SV{V: Value{T: rtyp, L: []*Term{f.App(argTerms...)}}}
		}
	}
	sub.hint = rtyp
	r := fx.evalSpec(sub, sf.Body)
	if r.Untyped {
		r = fx.typed(r, rtyp)
	}
	if isIntType(rtyp) && isIntType(r.V.T) {
		if tc.Mode == ModeBV {
			wr, _, _ := intInfo(r.V.T)
			wt, _, _ := intInfo(rtyp)
			if wr != wt {
				fx.specFail(x, "body of %s has type %v, declared %v", sf.Name, r.V.T, rtyp)
			}
		}
		r.V.T = rtyp
	}
	return r
}

func (fx *FnCtx) evalSpecBinSV(env *Env, x SpecExpr, op string, a, b SV) *Term {
	tmp := &SBin{Op: op, L: &svHolder{a}, R: &svHolder{b}}
	return fx.evalBin(env, tmp).V.L[0]
}

// svHolder lets already evaluated values be re-used inside evalBin.
type svHolder struct{ sv SV }

func (h *svHolder) String() string { return "<value>" }


func (fx *FnCtx) evalQuant(env *Env, q *SQuant) SV {
	tc := fx.tc
	boolSV := func(t *Term) SV { return SV{V: Value{T: types.Typ[types.Bool], L: []*Term{t}}} }
	if q.Lo != nil {
		lo := fx.evalIdx(env, q.Lo)
		hi := fx.evalIdx(env, q.Hi)
		name := q.Vars[0].Name
		if lo.IsNum() && hi.IsNum() {
			l, h := lo.SignedVal(), hi.SignedVal()
			n := new(big.Int).Sub(h, l)
			if n.Sign() <= 0 {
				return boolSV(Bool(q.Forall))
			}
			if n.Cmp(big.NewInt(64)) <= 0 {
				var parts []*Term
				for k := int64(0); k < n.Int64(); k++ {
					sub := env.child()
					v := new(big.Int).Add(l, big.NewInt(k))
					sub.vars[name] = SV{V: Value{T: types.Typ[types.Int], L: []*Term{tc.IntConst(v, types.Typ[types.Int])}}}
					parts = append(parts, fx.evalBool(sub, q.Body))
				}
				if q.Forall {
					return boolSV(And(parts...))
				}
				return boolSV(Or(parts...))
			}
		}
		if fx.root.boundedK > 0 && !lo.hasBnd && !hi.hasBnd {
			// bounded instance search: ranges are explored up to 8 elements, so goals stay
			// quantifier-free and the solver can return a model
			const nq = 4
			fx.assume(tc.IdxLe(tc.IdxSub(hi, lo), tc.IdxNum(nq)))
			var parts []*Term
			for k := int64(0); k < nq; k++ {
				sub := env.child()
				iv := tc.IdxAdd(lo, tc.IdxNum(k))
				sub.vars[name] = SV{V: Value{T: types.Typ[types.Int], L: []*Term{iv}}}
				if sub.oldEnv != nil {
					o := sub.oldEnv.child()
					o.vars[name] = sub.vars[name]
					sub.oldEnv = o
				}
				in := tc.IdxLt(iv, hi)
				b := fx.evalBool(sub, q.Body)
				if q.Forall {
					parts = append(parts, Implies(in, b))
				} else {
					parts = append(parts, And(in, b))
				}
			}
			if q.Forall {
				return boolSV(And(parts...))
			}
			return boolSV(Or(parts...))
		}
		bv := BoundVar(name, tc.IdxSort())
		sub := env.child()
		sub.vars[name] = SV{V: Value{T: types.Typ[types.Int], L: []*Term{bv}}}
		if sub.oldEnv != nil {
			o := sub.oldEnv.child()
			o.vars[name] = sub.vars[name]
			sub.oldEnv = o
		}
		guard := And(tc.IdxLe(lo, bv), tc.IdxLt(bv, hi))
		body := fx.evalBool(sub, q.Body)
		if q.Forall {
			return boolSV(Forall([]*Term{bv}, Implies(guard, body)))
		}
		return boolSV(Exists([]*Term{bv}, And(guard, body)))
	}
	sub := env.child()
	var bvs []*Term
	guard := True
	for _, v := range q.Vars {
		t := fx.resolveType(v.Type, env.pkg)
		if t == nil {
			fx.specFail(q, "unknown type %q", v.Type)
		}
		lay := tc.Layout(t)
		val := Value{T: t}
		for _, lf := range lay.Leaves {
			b := BoundVar(v.Name+lf.Path, lf.Sort)
			bvs = append(bvs, b)
			val.L = append(val.L, b)
			for _, f := range tc.leafFacts(lf, b) {
				guard = And(guard, f)
			}
		}
		sub.vars[v.Name] = SV{V: val}
	}
	if sub.oldEnv != nil {
		o := sub.oldEnv.child()
		for _, v := range q.Vars {
			o.vars[v.Name] = sub.vars[v.Name]
		}
		sub.oldEnv = o
	}
	body := fx.evalBool(sub, q.Body)
	if q.Forall {
		return boolSV(Forall(bvs, Implies(guard, body)))
	}
	return boolSV(Exists(bvs, And(guard, body)))
}

// ---------------------------------------------------------------------------
// environments for program points

// entryEnv: parameters by name, state = given state, old = entry state.
func (fx *FnCtx) entryEnv(st *State) *Env {
	env := &Env{fx: fx, st: st, vars: map[string]SV{}, pkg: fx.pkgTypes()}
	env.lookup = func(name string) (SV, bool) { return fx.lookupEntryVar(name, st) }
	return env
}

func (fx *FnCtx) pkgTypes() *types.Package {
	f := fx.fn
	for f.Parent() != nil {
		f = f.Parent()
	}
	if f.Pkg != nil {
		return f.Pkg.Pkg
	}
	if f.Object() != nil {
		return f.Object().Pkg()
	}
	return nil
}

func (fx *FnCtx) lookupEntryVar(name string, st *State) (SV, bool) {
	if v, ok := fx.params[name]; ok {
		return SV{V: v}, true
	}
	for i, fv := range fx.fn.FreeVars {
		if fv.Name() == name {
			var v Value
			if i < len(fx.bindings) {
				v = fx.bindings[i]
			} else {
				v = fx.vals[fv]
			}
			// captured by reference: the variable's value is what the pointer refers to
			if _, ok := fv.Type().Underlying().(*types.Pointer); ok {
				return SV{V: fx.Load(st, fx.asPtr(v))}, true
			}
			return SV{V: v}, true
		}
	}
	return SV{}, false
}

// postEnv: environment for ensures clauses at the (merged) return point.
func (fx *FnCtx) postEnv(st *State, results []Value) *Env {
	old := fx.entryEnv(fx.entry)
	env := fx.entryEnv(st)
	env.oldEnv = old
	env.result = results
	env.resNames = fx.resultNames
	env.preNAlloc = fx.entry.NAlloc
	return env
}

// loopEnv resolves local variable names to their SSA values at the loop header.
func (fx *FnCtx) loopEnv(li *loopInfo, st *State, phiVals map[*ssa.Phi]Value) *Env {
	env := &Env{fx: fx, st: st, vars: map[string]SV{}, pkg: fx.pkgTypes()}
	env.oldEnv = fx.entryEnv(fx.entry)
	env.preNAlloc = fx.entry.NAlloc
	env.lookup = func(name string) (SV, bool) {
		// header phis by variable name
		for _, ins := range li.header.Instrs {
			phi, ok := ins.(*ssa.Phi)
			if !ok {
				break
			}
			if phi.Comment == name {
				if v, ok := phiVals[phi]; ok {
					return SV{V: v}, true
				}
			}
		}
		// rangeindexN / rangesliceN: the hidden index and the slice of the enclosing range loop
		// with ordinal N (for the invariants of inner loops)
		for _, pre := range []string{"rangeindex", "rangeslice"} {
			if !strings.HasPrefix(name, pre) || len(name) == len(pre) {
				continue
			}
			n, err := strconv.Atoi(name[len(pre):])
			if err != nil || n < 0 || n >= len(fx.loops.loops) {
				continue
			}
			outer := fx.loops.loops[n]
			isAnc := false
			for l := li.parent; l != nil; l = l.parent {
				if l == outer {
					isAnc = true
				}
			}
			if !isAnc {
				continue
			}
			idx, ln := rangeLoopParts(outer)
			if idx == nil {
				continue
			}
			if pre == "rangeindex" {
				if v, ok := fx.vals[idx]; ok {
					return SV{V: v}, true
				}
				continue
			}
			if c, ok := ln.(*ssa.Call); ok && len(c.Call.Args) == 1 {
				if v, ok := fx.vals[c.Call.Args[0]]; ok {
					return SV{V: v}, true
				}
			}
		}
		// rangeslice: the slice a "for ... range s" loop runs over (s may be an unnamed temporary,
		// e.g. the result of a call)
		if name == "rangeslice" {
			if _, ln := rangeLoopParts(li); ln != nil {
				if c, ok := ln.(*ssa.Call); ok {
					if b, ok := c.Call.Value.(*ssa.Builtin); ok && b.Name() == "len" && len(c.Call.Args) == 1 {
						if _, isSl := c.Call.Args[0].Type().Underlying().(*types.Slice); isSl {
							if v, ok := fx.vals[c.Call.Args[0]]; ok {
								return SV{V: v}, true
							}
						}
					}
				}
			}
		}
		// "for i := range s": at the loop head i denotes the index of the iteration about to run
		// (the hidden range index + 1)
		for _, ins := range li.header.Instrs {
			phi, ok := ins.(*ssa.Phi)
			if !ok {
				break
			}
			if phi.Comment != "rangeindex" {
				continue
			}
			pv, ok := phiVals[phi]
			if !ok {
				continue
			}
			for b := range li.blocks {
				for _, in := range b.Instrs {
					dr, ok := in.(*ssa.DebugRef)
					if !ok || dr.IsAddr || dr.Object() == nil || dr.Object().Name() != name {
						continue
					}
					if bo, ok := dr.X.(*ssa.BinOp); ok && bo.Op == token.ADD && bo.X == phi {
						return SV{V: Value{T: phi.Type(), L: []*Term{fx.tc.IdxAdd(pv.L[0], fx.tc.IdxNum(1))}}}, true
					}
				}
			}
		}
		// dominating definitions / references
		for b := li.header.Idom(); b != nil; b = b.Idom() {
			for i := len(b.Instrs) - 1; i >= 0; i-- {
				switch t := b.Instrs[i].(type) {
				case *ssa.DebugRef:
					if obj := t.Object(); obj != nil && obj.Name() == name {
						if _, isVar := obj.(*types.Var); !isVar {
							continue
						}
						if t.IsAddr {
							v, ok := fx.vals[t.X]
							if !ok {
								continue
							}
							return SV{V: fx.Load(st, fx.asPtr(v))}, true
						}
						if _, isParam := t.X.(*ssa.Parameter); isParam {
							return SV{V: fx.val(t.X)}, true
						}
						if _, isConst := t.X.(*ssa.Const); isConst {
							return SV{V: fx.val(t.X)}, true
						}
						if v, ok := fx.vals[t.X]; ok {
							return SV{V: v}, true
						}
					}
				case *ssa.Phi:
					if t.Comment == name {
						if v, ok := fx.vals[t]; ok {
							return SV{V: v}, true
						}
					}
				}
			}
		}
		// variables only referenced inside the loop but defined before it without DebugRef in a dominator:
		// look at allocs named like the variable
		for a, r := range fx.regions {
			if a.Comment == name {
				if v, ok := st.Locals[r]; ok {
					return SV{V: v}, true
				}
			}
		}
		return fx.lookupEntryVar(name, st)
	}
	return env
}

// ghostOwner: the reference that owns a ghost field: the object a pointer refers to, or the object
// an interface value holds.
func (fx *FnCtx) ghostOwner(x SpecExpr, v Value) *Term {
	if v.P != nil {
		if v.P.Kind != PObj || v.P.Off != 0 {
			fx.specFail(x, "ghost field of something that is not a whole object")
		}
		return v.P.Ref
	}
	if v.T != nil {
		if _, ok := v.T.Underlying().(*types.Interface); ok && len(v.L) == 2 {
			return v.L[1]
		}
		if _, ok := v.T.Underlying().(*types.Pointer); ok && len(v.L) == 1 {
			return v.L[0]
		}
	}
	fx.specFail(x, "ghost field needs a pointer or an interface value")
	return nil
}
