package main

import (
	"strconv"
	"encoding/json"
	"flag"
	"fmt"
	"go/token"
	"go/types"
	"math/big"
	"os"
	"path/filepath"
	"sort"
	"strings"

	"golang.org/x/tools/go/packages"
	"golang.org/x/tools/go/ssa"
	"golang.org/x/tools/go/ssa/ssautil"
)

const repoDir = "/repo"

// activeRepoDir is the tree the current command works on (--dir; /repo by default).
var activeRepoDir = repoDir
const contractFileName = "zz_contracts_verif.go"

func loadProgram(dir string) (*Verifier, error) {
	activeRepoDir = dir
	env := append(os.Environ(), "GOFLAGS=-mod=mod", "GOPROXY=off", "GOSUMDB=off", "GOTOOLCHAIN=local")
	cfg := &packages.Config{
		Mode:       packages.LoadAllSyntax,
		Dir:        dir,
		Env:        env,
		BuildFlags: []string{"-tags=verif"},
		Fset:       token.NewFileSet(),
	}
	pkgs, err := packages.Load(cfg, "./...")
	if err != nil {
		return nil, err
	}
	nerr := 0
	packages.Visit(pkgs, nil, func(p *packages.Package) {
		for _, e := range p.Errors {
			if strings.HasPrefix(p.PkgPath, "github.com/biogo/hts") {
				fmt.Fprintf(os.Stderr, "load error: %v\n", e)
				nerr++
			}
		}
	})
	if nerr > 0 {
		return nil, fmt.Errorf("%d errors loading %s", nerr, dir)
	}
	prog, spkgs := ssautil.AllPackages(pkgs, ssa.GlobalDebug|ssa.InstantiateGenerics)
	prog.Build()
	v := &Verifier{prog: prog, pkgs: map[string]*ssa.Package{}, fset: cfg.Fset, cs: NewContracts(),
		heapLeaves: map[string]heapInfo{}, tcs: map[Mode]*Tcx{ModeBV: NewTcx(ModeBV), ModeInt: NewTcx(ModeInt)},
		tables: map[string][]string{}, bounds: map[*Term]*big.Int{}, typeTags: map[string]int{}, tagTypes: map[int]types.Type{}, usedTrusted: map[string]bool{}, usedAuto: map[string]bool{}}
	for i, p := range spkgs {
		if p == nil {
			continue
		}
		v.pkgs[pkgs[i].PkgPath] = p
	}
	// contract files
	packages.Visit(pkgs, nil, func(p *packages.Package) {
		if !strings.HasPrefix(p.PkgPath, "github.com/biogo/hts") {
			return
		}
		for _, f := range p.GoFiles {
			if filepath.Base(f) == contractFileName {
				if e := v.cs.ParseContractFile(f, p.PkgPath); e != nil && err == nil {
					err = e
				}
			}
		}
	})
	if err != nil {
		return nil, err
	}
	if err := v.cs.CheckDuplicates(); err != nil {
		return nil, err
	}
	for _, e := range v.cs.Embedded {
		// pkgpath.Type.field
		k2 := strings.LastIndex(e, ".")
		k1 := strings.LastIndex(e[:k2], ".")
		pkgPath, tn, fn := e[:k1], e[k1+1:k2], e[k2+1:]
		sp := v.pkgs[pkgPath]
		var fld *types.Var
		if sp != nil {
			if obj := sp.Pkg.Scope().Lookup(tn); obj != nil {
				if st, ok := obj.Type().Underlying().(*types.Struct); ok {
					for i := 0; i < st.NumFields(); i++ {
						if st.Field(i).Name() == fn {
							fld = st.Field(i)
						}
					}
				}
			}
		}
		if fld == nil {
			return nil, fmt.Errorf("embedded %s: no such struct field", e)
		}
		if _, ok := fld.Type().Underlying().(*types.Struct); !ok {
			return nil, fmt.Errorf("embedded %s: field is not of struct type", e)
		}
		embeddedFields[fld] = true
	}
	v.tableRaw = map[string]json.RawMessage{}
	v.strConsts = map[string]int{}
	if err := v.extractTables(dir); err != nil {
		return nil, err
	}
	return v, nil
}

func (v *Verifier) findFunction(pkgPath, name string) *ssa.Function {
	p := v.pkgs[pkgPath]
	if p == nil {
		for _, q := range v.prog.AllPackages() {
			if q.Pkg.Path() == pkgPath {
				p = q
			}
		}
	}
	if p == nil {
		return nil
	}
	base := name
	closure := ""
	if k := strings.Index(name, "$"); k >= 0 {
		base, closure = name[:k], name[k:]
	}
	var fn *ssa.Function
	if k := strings.Index(base, "."); k >= 0 {
		tn, mn := base[:k], base[k+1:]
		obj := p.Pkg.Scope().Lookup(tn)
		if obj == nil {
			return nil
		}
		named, ok := obj.Type().(*types.Named)
		if !ok {
			return nil
		}
		for _, t := range []types.Type{named, types.NewPointer(named)} {
			ms := v.prog.MethodSets.MethodSet(t)
			for i := 0; i < ms.Len(); i++ {
				if ms.At(i).Obj().Name() == mn {
					f := v.prog.MethodValue(ms.At(i))
					if f != nil && f.Synthetic == "" {
						fn = f
					}
				}
			}
		}
	} else {
		fn = p.Func(base)
	}
	if fn == nil || closure == "" {
		return fn
	}
	for _, an := range fn.AnonFuncs {
		if strings.HasSuffix(an.Name(), closure) {
			return an
		}
	}
	return nil
}

type funcResult struct {
	Key  string
	FC   *FuncContract
	Root *RootCtx
	Err  error
}

func main() {
	if len(os.Args) < 2 {
		fmt.Fprintln(os.Stderr, "usage: hvc check <property> [--tier quick|thorough] | hvc verify [-f func] | hvc replay <file>")
		os.Exit(2)
	}
	switch os.Args[1] {
	case "verify":
		fs := flag.NewFlagSet("verify", flag.ExitOnError)
		only := fs.String("f", "", "only functions whose key contains this")
		timeout := fs.Int("t", 10, "solver timeout (s)")
		dir := fs.String("dir", repoDir, "repository")
		outDir := fs.String("out", "/verif/out/verify", "output dir")
		verbose := fs.Bool("v", false, "verbose")
		fs.BoolVar(&replayFailures, "r", false, "replay sat failures")
		fs.Parse(os.Args[2:])
		os.Exit(cmdVerify(*dir, *only, *timeout, *outDir, *verbose))
	case "check":
		os.Exit(cmdCheck(os.Args[2:]))
	case "replay":
		// re-run a stored replay file against the current working tree of /repo
		if len(os.Args) < 3 {
			fmt.Fprintln(os.Stderr, "usage: hvc replay <file>")
			os.Exit(2)
		}
		v := &Verifier{}
		rr := v.runReplayFile(os.Args[2], nil)
		fmt.Printf("hvc: replay %s: %s\n", os.Args[2], rr.Detail)
		if rr.Reproduced {
			os.Exit(1)
		}
		os.Exit(0)
	default:
		fmt.Fprintln(os.Stderr, "unknown command", os.Args[1])
		os.Exit(2)
	}
}

var replayFailures bool

func cmdVerify(dir, only string, timeout int, outDir string, verbose bool) int {
	v, err := loadProgram(dir)
	if err != nil {
		fmt.Fprintln(os.Stderr, "engine failure:", err)
		return 2
	}
	var keys []string
	for k := range v.cs.Funcs {
		keys = append(keys, k)
	}
	sort.Strings(keys)
	var all []*Obligation
	rc := 0
	for _, k := range keys {
		fc := v.cs.Funcs[k]
		if fc.Trusted || (fc.Inline && len(fc.Ensures) == 0) || (only != "" && !strings.Contains(k, only)) {
			continue
		}
		fn := v.findFunction(fc.Pkg, fc.Name)
		if fn == nil {
			fmt.Printf("ENGINE: contract for unknown function %s\n", k)
			rc = 2
			continue
		}
		root, err := v.VerifyFunction(fn, fc)
		if err != nil {
			fmt.Printf("ENGINE: %s: %v\n", k, err)
			rc = 2
			continue
		}
		all = append(all, root.obls...)
	}
	for _, l := range v.cs.Lemmas {
		if only != "" && !strings.Contains(l.Name, only) {
			continue
		}
		root, err := v.VerifyLemma(l)
		if err != nil {
			fmt.Printf("ENGINE: lemma %s: %v\n", l.Name, err)
			rc = 2
			continue
		}
		all = append(all, root.obls...)
	}
	dischargeAll(all, outDir, timeout, 16)
	nOK := 0
	for _, o := range all {
		ok := o.Status == "unsat"
		if o.Kind == "vacuity" {
			ok = o.Status != "unsat"
		}
		if ok {
			nOK++
			if verbose {
				fmt.Printf("  ok   %-60s %s %.2fs\n", o.Name, o.Solver, o.Time)
			}
			continue
		}
		pos := ""
		if o.Pos.IsValid() {
			pos = fmt.Sprintf(" %s:%d", shortFile(o.Pos.Filename), o.Pos.Line)
		}
		fmt.Printf("  FAIL %-60s [%s] %s %.2fs%s\n        %s\n", o.Name, o.Status, o.Solver, o.Time, pos, o.Desc)
		if o.Status == "sat" && replayFailures && o.Root.top != nil && o.Root.top.fc != nil {
			rr := v.replayObligation(o, o.Root.top, o.Root.top.fn, o.Root.top.fc, filepath.Join(outDir, "replay"), o.Model)
			fmt.Printf("        replay: %s (%s)\n", rr.Detail, rr.File)
		}
		if rc == 0 {
			rc = 1
		}
	}
	fmt.Printf("%d obligations, %d discharged\n", len(all), nOK)
	// HVC_BOUNDED=K: additionally unroll every loop K times and report the obligations that have a
	// concrete counterexample (a debugging aid for contracts: `unknown` above says nothing)
	if ks := os.Getenv("HVC_BOUNDED"); ks != "" && rc != 0 {
		K, _ := strconv.Atoi(ks)
		for _, k := range keys {
			fc := v.cs.Funcs[k]
			if fc.Trusted || (fc.Inline && len(fc.Ensures) == 0) || (only != "" && !strings.Contains(k, only)) {
				continue
			}
			fn := v.findFunction(fc.Pkg, fc.Name)
			if fn == nil {
				continue
			}
			root, err := v.VerifyFunctionBounded(fn, fc, K)
			if err != nil || root == nil {
				fmt.Printf("bounded: %s: %v\n", k, err)
				continue
			}
			var cand []*Obligation
			for _, o := range root.obls {
				switch o.Kind {
				case "vacuity", "unwind":
					continue
				}
				o.Name += "~bounded"
				cand = append(cand, o)
			}
			noRetry = true
			dischargeAll(cand, filepath.Join(outDir, "smt-bounded"), 15, 16)
			noRetry = false
			for _, o := range cand {
				if o.Status == "unsat" {
					continue
				}
				fmt.Printf("  bounded(%d) %-56s [%s] %s\n        %s\n", K, o.Name, o.Status, o.Solver, o.Desc)
				if o.Status == "sat" && replayFailures {
					rr := v.replayObligation(o, root.top, fn, fc, filepath.Join(outDir, "replay"), o.Model)
					fmt.Printf("        replay: %s (%s)\n", rr.Detail, rr.File)
				}
			}
		}
	}
	return rc
}

