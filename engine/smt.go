package main

// SMT term layer: hash-consed term DAG with light simplification and an
// SMT-LIB 2 printer that emits shared sub-terms as define-funs.

import (
	"os"
	"fmt"
	"math/big"
	"sort"
	"strings"
)

type SortKind int

const (
	SBool SortKind = iota
	SInt
	SBV
	SArray
)

type Sort struct {
	Kind  SortKind
	Width int
	Idx   *Sort
	Elem  *Sort
}

var (
	BoolSort = &Sort{Kind: SBool}
	IntSort  = &Sort{Kind: SInt}
	bvSorts  = map[int]*Sort{}
	arrSorts = map[string]*Sort{}
)

func BVSort(w int) *Sort {
	if s, ok := bvSorts[w]; ok {
		return s
	}
	s := &Sort{Kind: SBV, Width: w}
	bvSorts[w] = s
	return s
}

func ArraySort(idx, elem *Sort) *Sort {
	k := idx.String() + "->" + elem.String()
	if s, ok := arrSorts[k]; ok {
		return s
	}
	s := &Sort{Kind: SArray, Idx: idx, Elem: elem}
	arrSorts[k] = s
	return s
}

func (s *Sort) String() string {
	switch s.Kind {
	case SBool:
		return "Bool"
	case SInt:
		return "Int"
	case SBV:
		return fmt.Sprintf("(_ BitVec %d)", s.Width)
	case SArray:
		return fmt.Sprintf("(Array %s %s)", s.Idx, s.Elem)
	}
	return "?"
}

type Term struct {
	id     int
	Op     string // "sym", "num", "bound", "forall", "exists", or SMT operator
	Args   []*Term
	Sort   *Sort
	Name   string   // sym / bound
	Val    *big.Int // num
	Bound  []*Term  // quantifier bound vars
	Pats   [][]*Term
	hasBnd bool
	Idx    []int // indexed ops e.g. extract hi lo, zero_extend n
}

type TermStore struct {
	tab   map[string]*Term
	next  int
	fresh map[string]int
	syms  map[string]*Term
}

func NewTermStore() *TermStore {
	return &TermStore{tab: map[string]*Term{}, fresh: map[string]int{}, syms: map[string]*Term{}}
}

var TS = NewTermStore()

func (ts *TermStore) intern(t *Term) *Term {
	var sb strings.Builder
	sb.WriteString(t.Op)
	sb.WriteByte('|')
	sb.WriteString(t.Name)
	if t.Val != nil {
		sb.WriteString(t.Val.String())
	}
	sb.WriteByte('|')
	sb.WriteString(t.Sort.String())
	for _, i := range t.Idx {
		fmt.Fprintf(&sb, "_%d", i)
	}
	for _, a := range t.Args {
		fmt.Fprintf(&sb, ",%d", a.id)
	}
	for _, b := range t.Bound {
		fmt.Fprintf(&sb, ";%d", b.id)
	}
	for _, p := range t.Pats {
		sb.WriteString("#")
		for _, q := range p {
			fmt.Fprintf(&sb, "p%d", q.id)
		}
	}
	k := sb.String()
	if o, ok := ts.tab[k]; ok {
		return o
	}
	ts.next++
	t.id = ts.next
	for _, a := range t.Args {
		if a.hasBnd {
			t.hasBnd = true
		}
	}
	if t.Op == "bound" {
		t.hasBnd = true
	}
	ts.tab[k] = t
	return t
}

func mk(op string, s *Sort, args ...*Term) *Term {
	return TS.intern(&Term{Op: op, Sort: s, Args: args})
}

func mkIdx(op string, idx []int, s *Sort, args ...*Term) *Term {
	return TS.intern(&Term{Op: op, Sort: s, Args: args, Idx: idx})
}

func sanitize(n string) string {
	var sb strings.Builder
	for _, r := range n {
		switch {
		case r >= 'a' && r <= 'z', r >= 'A' && r <= 'Z', r >= '0' && r <= '9', r == '_', r == '.', r == '$', r == '!':
			sb.WriteRune(r)
		default:
			sb.WriteByte('_')
		}
	}
	return sb.String()
}

// Sym returns the symbol with exactly this name (declared once).
func Sym(name string, s *Sort) *Term {
	name = sanitize(name)
	if t, ok := TS.syms[name]; ok {
		if t.Sort != s {
			panic("symbol " + name + " redeclared with another sort")
		}
		return t
	}
	t := TS.intern(&Term{Op: "sym", Sort: s, Name: name})
	TS.syms[name] = t
	return t
}

// Fresh returns a new symbol whose name starts with base.
func Fresh(base string, s *Sort) *Term {
	base = sanitize(base)
	for {
		n := TS.fresh[base]
		TS.fresh[base] = n + 1
		name := fmt.Sprintf("%s!%d", base, n)
		if _, ok := TS.syms[name]; !ok {
			return Sym(name, s)
		}
	}
}

func BoundVar(base string, s *Sort) *Term {
	base = sanitize(base)
	n := TS.fresh["?"+base]
	TS.fresh["?"+base] = n + 1
	return TS.intern(&Term{Op: "bound", Sort: s, Name: fmt.Sprintf("%s?%d", base, n)})
}

var (
	True  = mk("true", BoolSort)
	False = mk("false", BoolSort)
)

func Bool(b bool) *Term {
	if b {
		return True
	}
	return False
}

func IntNum(v int64) *Term   { return IntBig(big.NewInt(v)) }
func IntBig(v *big.Int) *Term { return TS.intern(&Term{Op: "num", Sort: IntSort, Val: new(big.Int).Set(v)}) }

func BVBig(v *big.Int, w int) *Term {
	m := new(big.Int).Lsh(big.NewInt(1), uint(w))
	x := new(big.Int).Mod(v, m)
	return TS.intern(&Term{Op: "num", Sort: BVSort(w), Val: x})
}
func BVNum(v int64, w int) *Term { return BVBig(big.NewInt(v), w) }

func (t *Term) IsNum() bool   { return t.Op == "num" }
func (t *Term) IsTrue() bool  { return t == True }
func (t *Term) IsFalse() bool { return t == False }

// signed value of a BV numeral
func (t *Term) SignedVal() *big.Int {
	if t.Sort.Kind != SBV {
		return t.Val
	}
	w := t.Sort.Width
	if t.Val.Bit(w-1) == 1 {
		return new(big.Int).Sub(t.Val, new(big.Int).Lsh(big.NewInt(1), uint(w)))
	}
	return t.Val
}

// ---------- boolean ----------

func Not(a *Term) *Term {
	switch {
	case a == True:
		return False
	case a == False:
		return True
	case a.Op == "not":
		return a.Args[0]
	}
	return mk("not", BoolSort, a)
}

func And(as ...*Term) *Term {
	var out []*Term
	seen := map[int]bool{}
	var add func(t *Term) bool
	add = func(t *Term) bool {
		if t == True {
			return true
		}
		if t == False {
			return false
		}
		if t.Op == "and" {
			for _, x := range t.Args {
				if !add(x) {
					return false
				}
			}
			return true
		}
		if !seen[t.id] {
			seen[t.id] = true
			out = append(out, t)
		}
		return true
	}
	for _, a := range as {
		if !add(a) {
			return False
		}
	}
	for _, o := range out {
		if o.Op == "not" && seen[o.Args[0].id] {
			return False
		}
	}
	switch len(out) {
	case 0:
		return True
	case 1:
		return out[0]
	}
	return mk("and", BoolSort, out...)
}

func Or(as ...*Term) *Term {
	var out []*Term
	seen := map[int]bool{}
	var add func(t *Term) bool
	add = func(t *Term) bool {
		if t == False {
			return true
		}
		if t == True {
			return false
		}
		if t.Op == "or" {
			for _, x := range t.Args {
				if !add(x) {
					return false
				}
			}
			return true
		}
		if !seen[t.id] {
			seen[t.id] = true
			out = append(out, t)
		}
		return true
	}
	for _, a := range as {
		if !add(a) {
			return True
		}
	}
	for _, o := range out {
		if o.Op == "not" && seen[o.Args[0].id] {
			return True
		}
	}
	switch len(out) {
	case 0:
		return False
	case 1:
		return out[0]
	}
	return mk("or", BoolSort, out...)
}

func Implies(a, b *Term) *Term {
	switch {
	case a == True:
		return b
	case a == False, b == True:
		return True
	case b == False:
		return Not(a)
	case a == b:
		return True
	}
	return mk("=>", BoolSort, a, b)
}

func Ite(c, a, b *Term) *Term {
	switch {
	case c == True:
		return a
	case c == False:
		return b
	case a == b:
		return a
	}
	if a.Sort != b.Sort {
		panic(fmt.Sprintf("ite sort mismatch %s vs %s", a.Sort, b.Sort))
	}
	if a.Sort == BoolSort {
		if a == True && b == False {
			return c
		}
		if a == False && b == True {
			return Not(c)
		}
		if a == True {
			return Or(c, b)
		}
		if b == False {
			return And(c, a)
		}
		if a == False {
			return And(Not(c), b)
		}
		if b == True {
			return Or(Not(c), a)
		}
	}
	// ite(c, x, ite(c, y, z)) -> ite(c, x, z)
	if b.Op == "ite" && b.Args[0] == c {
		return Ite(c, a, b.Args[2])
	}
	if a.Op == "ite" && a.Args[0] == c {
		return Ite(c, a.Args[1], b)
	}
	return mk("ite", a.Sort, c, a, b)
}

func Eq(a, b *Term) *Term {
	if a == b {
		return True
	}
	if a.Sort != b.Sort {
		panic(fmt.Sprintf("eq sort mismatch %s vs %s (%s, %s)", a.Sort, b.Sort, a.Op, b.Op))
	}
	if a.IsNum() && b.IsNum() {
		return Bool(a.Val.Cmp(b.Val) == 0)
	}
	if a.Sort == BoolSort {
		if a == True {
			return b
		}
		if b == True {
			return a
		}
		if a == False {
			return Not(b)
		}
		if b == False {
			return Not(a)
		}
	}
	if a.id > b.id {
		a, b = b, a
	}
	return mk("=", BoolSort, a, b)
}

func Distinct(as ...*Term) *Term {
	if len(as) < 2 {
		return True
	}
	return mk("distinct", BoolSort, as...)
}

// ---------- arrays ----------

var selectDepth int

func Select(a, i *Term) *Term {
	if a.Sort.Kind != SArray {
		panic("select on non-array " + a.Sort.String())
	}
	if i.Sort != a.Sort.Idx {
		panic(fmt.Sprintf("select index sort %s, want %s", i.Sort, a.Sort.Idx))
	}
	cur := a
	for {
		if cur.Op == "store" {
			j := cur.Args[1]
			if j == i {
				return cur.Args[2]
			}
			if j.IsNum() && i.IsNum() && j.Val.Cmp(i.Val) != 0 {
				cur = cur.Args[0]
				continue
			}
			if definitelyDistinct(i, j) {
				cur = cur.Args[0]
				continue
			}
		}
		if cur.Op == "constarr" {
			return cur.Args[0]
		}
		break
	}
	if cur.Op == "ite" && selectDepth < 6 {
		// read through a merged array: select(ite(c,a,b), i) = ite(c, select(a,i), select(b,i))
		selectDepth++
		r := Ite(cur.Args[0], Select(cur.Args[1], i), Select(cur.Args[2], i))
		selectDepth--
		return r
	}
	// offsets of slices held in memory at function entry are 0 (see FnCtx.Load): read as the numeral,
	// so that index terms stay free of a symbolic offset wherever the read can be resolved
	if cur.Sort.Elem.Kind != SArray && os.Getenv("HVC_OFF0") != "" && isEntryOffHeap(cur) {
		if cur.Sort.Elem.Kind == SInt {
			return IntNum(0)
		}
		if cur.Sort.Elem.Kind == SBV {
			return BVNum(0, cur.Sort.Elem.Width)
		}
	}
	return mk("select", a.Sort.Elem, cur, i)
}

// isEntryOffHeap: t is the entry value of a heap of slice/string offsets, or one location of a
// two-level one: H0_<mode>_<...>.off or select(H0_<mode>_<...>.off, a).
func isEntryOffHeap(t *Term) bool {
	if t.Op == "select" {
		t = t.Args[0]
	}
	return t.Op == "sym" && strings.HasPrefix(t.Name, "H0_") && strings.HasSuffix(t.Name, ".off")
}

// definitelyDistinct: x vs x+c (c != 0 numeral) in Int arithmetic.
func definitelyDistinct(a, b *Term) bool {
	if a.Sort.Kind != SInt {
		return false
	}
	ba, ca := splitAddConst(a)
	bb, cb := splitAddConst(b)
	if ba == bb && ca.Cmp(cb) != 0 {
		return true
	}
	return false
}

func splitAddConst(t *Term) (*Term, *big.Int) {
	if t.IsNum() {
		return nil, t.Val
	}
	if t.Op == "+" && len(t.Args) == 2 && t.Args[1].IsNum() {
		return t.Args[0], t.Args[1].Val
	}
	return t, big.NewInt(0)
}

func Store(a, i, v *Term) *Term {
	if a.Sort.Kind != SArray || i.Sort != a.Sort.Idx || v.Sort != a.Sort.Elem {
		panic(fmt.Sprintf("store sorts: %s [%s] := %s", a.Sort, i.Sort, v.Sort))
	}
	if a.Op == "store" && a.Args[1] == i {
		return Store(a.Args[0], i, v)
	}
	if v.Op == "select" && v.Args[0] == a && v.Args[1] == i {
		return a
	}
	return mk("store", a.Sort, a, i, v)
}

func ConstArray(s *Sort, v *Term) *Term {
	return mk("constarr", s, v)
}

// ---------- quantifiers ----------

func Forall(bound []*Term, body *Term, pats ...[]*Term) *Term {
	if body == True {
		return True
	}
	if !body.hasBnd {
		return body
	}
	t := &Term{Op: "forall", Sort: BoolSort, Args: []*Term{body}, Bound: bound, Pats: pats}
	r := TS.intern(t)
	r.hasBnd = outerBound(r)
	return r
}

func Exists(bound []*Term, body *Term) *Term {
	if body == False {
		return False
	}
	if !body.hasBnd {
		return body
	}
	t := &Term{Op: "exists", Sort: BoolSort, Args: []*Term{body}, Bound: bound}
	r := TS.intern(t)
	r.hasBnd = outerBound(r)
	return r
}

// outerBound reports whether q's body mentions bound variables other than q's own.
func outerBound(q *Term) bool {
	own := map[*Term]bool{}
	for _, b := range q.Bound {
		own[b] = true
	}
	seen := map[*Term]bool{}
	var walk func(t *Term) bool
	walk = func(t *Term) bool {
		if !t.hasBnd || seen[t] {
			return false
		}
		seen[t] = true
		if t.Op == "bound" {
			return !own[t]
		}
		if t.Op == "forall" || t.Op == "exists" {
			// its hasBnd already says whether it has free bound vars relative to itself;
			// those may be ours.
			inner := map[*Term]bool{}
			for _, b := range t.Bound {
				inner[b] = true
			}
			return freeBoundOtherThan(t.Args[0], own, inner)
		}
		for _, a := range t.Args {
			if walk(a) {
				return true
			}
		}
		return false
	}
	return walk(q.Args[0])
}

func freeBoundOtherThan(t *Term, own, inner map[*Term]bool) bool {
	if !t.hasBnd {
		return false
	}
	if t.Op == "bound" {
		return !own[t] && !inner[t]
	}
	if t.Op == "forall" || t.Op == "exists" {
		in2 := map[*Term]bool{}
		for k := range inner {
			in2[k] = true
		}
		for _, b := range t.Bound {
			in2[b] = true
		}
		return freeBoundOtherThan(t.Args[0], own, in2)
	}
	for _, a := range t.Args {
		if freeBoundOtherThan(a, own, inner) {
			return true
		}
	}
	return false
}

// Subst replaces terms (typically bound variables or symbols) in t.
func Subst(t *Term, m map[*Term]*Term) *Term {
	cache := map[*Term]*Term{}
	var rec func(t *Term) *Term
	rec = func(t *Term) *Term {
		if r, ok := m[t]; ok {
			return r
		}
		if len(t.Args) == 0 {
			return t
		}
		if r, ok := cache[t]; ok {
			return r
		}
		args := make([]*Term, len(t.Args))
		ch := false
		for i, a := range t.Args {
			args[i] = rec(a)
			if args[i] != a {
				ch = true
			}
		}
		var r *Term
		if !ch {
			r = t
		} else {
			r = rebuild(t, args)
		}
		cache[t] = r
		return r
	}
	return rec(t)
}

func rebuild(t *Term, args []*Term) *Term {
	switch t.Op {
	case "and":
		return And(args...)
	case "or":
		return Or(args...)
	case "not":
		return Not(args[0])
	case "=>":
		return Implies(args[0], args[1])
	case "ite":
		return Ite(args[0], args[1], args[2])
	case "=":
		return Eq(args[0], args[1])
	case "select":
		return Select(args[0], args[1])
	case "store":
		return Store(args[0], args[1], args[2])
	case "forall":
		var pats [][]*Term
		return Forall(t.Bound, args[0], pats...)
	case "exists":
		return Exists(t.Bound, args[0])
	case "+":
		return IAdd(args[0], args[1])
	case "-":
		if len(args) == 2 {
			return ISub(args[0], args[1])
		}
	case "*":
		return IMul(args[0], args[1])
	case "<=":
		return ILe(args[0], args[1])
	case "<":
		return ILt(args[0], args[1])
	}
	return TS.intern(&Term{Op: t.Op, Sort: t.Sort, Args: args, Idx: t.Idx, Name: t.Name})
}

// ---------- Int arithmetic ----------

func IAdd(a, b *Term) *Term {
	if a.IsNum() && b.IsNum() {
		return IntBig(new(big.Int).Add(a.Val, b.Val))
	}
	if a.IsNum() {
		a, b = b, a
	}
	if b.IsNum() {
		if b.Val.Sign() == 0 {
			return a
		}
		if a.Op == "+" && len(a.Args) == 2 && a.Args[1].IsNum() {
			return IAdd(a.Args[0], IntBig(new(big.Int).Add(a.Args[1].Val, b.Val)))
		}
	}
	return mk("+", IntSort, a, b)
}

func ISub(a, b *Term) *Term {
	if b.IsNum() {
		return IAdd(a, IntBig(new(big.Int).Neg(b.Val)))
	}
	if a == b {
		return IntNum(0)
	}
	return mk("-", IntSort, a, b)
}

func INeg(a *Term) *Term {
	if a.IsNum() {
		return IntBig(new(big.Int).Neg(a.Val))
	}
	return mk("-", IntSort, IntNum(0), a)
}

func IMul(a, b *Term) *Term {
	if a.IsNum() && b.IsNum() {
		return IntBig(new(big.Int).Mul(a.Val, b.Val))
	}
	if a.IsNum() {
		a, b = b, a
	}
	if b.IsNum() {
		if b.Val.Sign() == 0 {
			return IntNum(0)
		}
		if b.Val.Cmp(big.NewInt(1)) == 0 {
			return a
		}
	}
	return mk("*", IntSort, a, b)
}

// IDivE is SMT-LIB euclidean div; callers turn Go's truncated division into it.
func IDivE(a, b *Term) *Term {
	if a.IsNum() && b.IsNum() && b.Val.Sign() != 0 {
		q, _ := new(big.Int).DivMod(a.Val, b.Val, new(big.Int))
		return IntBig(q)
	}
	if b.IsNum() && b.Val.Cmp(big.NewInt(1)) == 0 {
		return a
	}
	return mk("div", IntSort, a, b)
}

func IModE(a, b *Term) *Term {
	if a.IsNum() && b.IsNum() && b.Val.Sign() != 0 {
		_, m := new(big.Int).DivMod(a.Val, b.Val, new(big.Int))
		return IntBig(m)
	}
	return mk("mod", IntSort, a, b)
}

func ILe(a, b *Term) *Term {
	if a.IsNum() && b.IsNum() {
		return Bool(a.Val.Cmp(b.Val) <= 0)
	}
	if a == b {
		return True
	}
	return mk("<=", BoolSort, a, b)
}
func ILt(a, b *Term) *Term {
	if a.IsNum() && b.IsNum() {
		return Bool(a.Val.Cmp(b.Val) < 0)
	}
	if a == b {
		return False
	}
	return mk("<", BoolSort, a, b)
}

// ---------- bit-vectors ----------

func bvBin(op string, a, b *Term) *Term {
	if a.Sort != b.Sort {
		panic(fmt.Sprintf("%s sort mismatch %s %s", op, a.Sort, b.Sort))
	}
	if a.IsNum() && b.IsNum() {
		if r := bvFold(op, a, b); r != nil {
			return r
		}
	}
	switch op {
	case "bvadd":
		if a.IsNum() {
			a, b = b, a
		}
		if b.IsNum() {
			if b.Val.Sign() == 0 {
				return a
			}
			if a.Op == "bvadd" && a.Args[1].IsNum() {
				return bvBin("bvadd", a.Args[0], bvFold("bvadd", a.Args[1], b))
			}
		}
	case "bvsub":
		if b.IsNum() {
			return bvBin("bvadd", a, BVNeg(b))
		}
		if a == b {
			return BVNum(0, a.Sort.Width)
		}
	case "bvor", "bvxor", "bvshl", "bvlshr":
		if b.IsNum() && b.Val.Sign() == 0 {
			return a
		}
	}
	return mk(op, a.Sort, a, b)
}

func bvFold(op string, a, b *Term) *Term {
	w := a.Sort.Width
	x, y := a.Val, b.Val
	r := new(big.Int)
	switch op {
	case "bvadd":
		r.Add(x, y)
	case "bvsub":
		r.Sub(x, y)
	case "bvmul":
		r.Mul(x, y)
	case "bvand":
		r.And(x, y)
	case "bvor":
		r.Or(x, y)
	case "bvxor":
		r.Xor(x, y)
	case "bvshl":
		if y.Cmp(big.NewInt(int64(w))) >= 0 {
			return BVNum(0, w)
		}
		r.Lsh(x, uint(y.Int64()))
	case "bvlshr":
		if y.Cmp(big.NewInt(int64(w))) >= 0 {
			return BVNum(0, w)
		}
		r.Rsh(x, uint(y.Int64()))
	case "bvudiv":
		if y.Sign() == 0 {
			return nil
		}
		r.Div(x, y)
	case "bvurem":
		if y.Sign() == 0 {
			return nil
		}
		r.Mod(x, y)
	default:
		return nil
	}
	return BVBig(r, w)
}

func BVCmp(op string, a, b *Term) *Term {
	if a.Sort != b.Sort {
		panic(fmt.Sprintf("%s sort mismatch %s %s", op, a.Sort, b.Sort))
	}
	if a.IsNum() && b.IsNum() {
		var c int
		switch op {
		case "bvult", "bvule", "bvugt", "bvuge":
			c = a.Val.Cmp(b.Val)
		default:
			c = a.SignedVal().Cmp(b.SignedVal())
		}
		switch op {
		case "bvult", "bvslt":
			return Bool(c < 0)
		case "bvule", "bvsle":
			return Bool(c <= 0)
		case "bvugt", "bvsgt":
			return Bool(c > 0)
		case "bvuge", "bvsge":
			return Bool(c >= 0)
		}
	}
	return mk(op, BoolSort, a, b)
}

func BVNot(a *Term) *Term {
	if a.IsNum() {
		m := new(big.Int).Sub(new(big.Int).Lsh(big.NewInt(1), uint(a.Sort.Width)), big.NewInt(1))
		return BVBig(new(big.Int).Xor(a.Val, m), a.Sort.Width)
	}
	return mk("bvnot", a.Sort, a)
}
func BVNeg(a *Term) *Term {
	if a.IsNum() {
		return BVBig(new(big.Int).Neg(a.Val), a.Sort.Width)
	}
	return mk("bvneg", a.Sort, a)
}

func BVExtract(hi, lo int, a *Term) *Term {
	if lo == 0 && hi == a.Sort.Width-1 {
		return a
	}
	if a.IsNum() {
		r := new(big.Int).Rsh(a.Val, uint(lo))
		return BVBig(r, hi-lo+1)
	}
	return mkIdx("extract", []int{hi, lo}, BVSort(hi-lo+1), a)
}

func BVZeroExt(n int, a *Term) *Term {
	if n == 0 {
		return a
	}
	if a.IsNum() {
		return BVBig(a.Val, a.Sort.Width+n)
	}
	return mkIdx("zero_extend", []int{n}, BVSort(a.Sort.Width+n), a)
}

func BVSignExt(n int, a *Term) *Term {
	if n == 0 {
		return a
	}
	if a.IsNum() {
		return BVBig(a.SignedVal(), a.Sort.Width+n)
	}
	return mkIdx("sign_extend", []int{n}, BVSort(a.Sort.Width+n), a)
}

// ---------- uninterpreted functions ----------

type UFunc struct {
	Name string
	Args []*Sort
	Res  *Sort
}

var ufuncs = map[string]*UFunc{}

func DeclareUF(name string, args []*Sort, res *Sort) *UFunc {
	name = sanitize(name)
	if f, ok := ufuncs[name]; ok {
		return f
	}
	f := &UFunc{name, args, res}
	ufuncs[name] = f
	return f
}

func (f *UFunc) App(args ...*Term) *Term {
	for i, a := range args {
		if a.Sort != f.Args[i] {
			panic(fmt.Sprintf("UF %s arg %d sort %s want %s", f.Name, i, a.Sort, f.Args[i]))
		}
	}
	return TS.intern(&Term{Op: "app", Name: f.Name, Sort: f.Res, Args: args})
}

// ---------- printing ----------

type Script struct {
	Logic   string
	Asserts []*Term
	Named   []string // comments for asserts
}

func numStr(t *Term) string {
	if t.Sort.Kind == SBV {
		w := t.Sort.Width
		if w%4 == 0 {
			return fmt.Sprintf("#x%0*s", w/4, t.Val.Text(16))
		}
		return fmt.Sprintf("#b%0*s", w, t.Val.Text(2))
	}
	if t.Val.Sign() < 0 {
		return "(- " + new(big.Int).Neg(t.Val).String() + ")"
	}
	return t.Val.String()
}

// PrintScript renders asserts into SMT-LIB. Sub-terms free of bound variables
// that are used more than once become define-funs.
func PrintScript(asserts []*Term, comments []string, getModel bool, modelTerms []*Term) string {
	// count references
	refs := map[*Term]int{}
	var order []*Term
	var visit func(t *Term)
	visit = func(t *Term) {
		refs[t]++
		if refs[t] > 1 {
			return
		}
		for _, a := range t.Args {
			visit(a)
		}
		for _, p := range t.Pats {
			for _, q := range p {
				visit(q)
			}
		}
		order = append(order, t) // post-order
	}
	for _, a := range asserts {
		visit(a)
	}
	for _, a := range modelTerms {
		visit(a)
	}
	var sb strings.Builder
	sb.WriteString("(set-option :produce-models true)\n(set-logic ALL)\n")
	// declarations
	var syms []*Term
	ufs := map[string]bool{}
	for _, t := range order {
		if t.Op == "sym" {
			syms = append(syms, t)
		}
		if t.Op == "app" {
			ufs[t.Name] = true
		}
	}
	sort.Slice(syms, func(i, j int) bool { return syms[i].Name < syms[j].Name })
	for _, s := range syms {
		fmt.Fprintf(&sb, "(declare-fun %s () %s)\n", s.Name, s.Sort)
	}
	var ufn []string
	for n := range ufs {
		ufn = append(ufn, n)
	}
	sort.Strings(ufn)
	for _, n := range ufn {
		f := ufuncs[n]
		var as []string
		for _, a := range f.Args {
			as = append(as, a.String())
		}
		fmt.Fprintf(&sb, "(declare-fun %s (%s) %s)\n", f.Name, strings.Join(as, " "), f.Res)
	}
	names := map[*Term]string{}
	letCounter := 0
	var render func(t *Term) string
	render = func(t *Term) string {
		if n, ok := names[t]; ok {
			return n
		}
		switch t.Op {
		case "sym", "bound":
			return t.Name
		case "num":
			return numStr(t)
		case "true", "false":
			return t.Op
		case "constarr":
			return fmt.Sprintf("((as const %s) %s)", t.Sort, render(t.Args[0]))
		case "forall", "exists":
			var bs []string
			for _, b := range t.Bound {
				bs = append(bs, fmt.Sprintf("(%s %s)", b.Name, b.Sort))
			}
			// share repeated sub-terms of the body that mention bound variables through let
			cnt := map[*Term]int{}
			var ord []*Term
			var walk func(x *Term)
			walk = func(x *Term) {
				if !x.hasBnd && x.Op != "bound" {
					return
				}
				if _, named := names[x]; named {
					return
				}
				cnt[x]++
				if cnt[x] > 1 {
					return
				}
				if x.Op == "forall" || x.Op == "exists" {
					return
				}
				for _, a := range x.Args {
					walk(a)
				}
				ord = append(ord, x)
			}
			walk(t.Args[0])
			var lets []string
			var bound []*Term
			for _, x := range ord {
				if cnt[x] > 1 && len(x.Args) > 0 && x.Op != "forall" && x.Op != "exists" {
					s := render(x)
					letCounter++
					nm := fmt.Sprintf("l%d", letCounter)
					lets = append(lets, fmt.Sprintf("(let ((%s %s)) ", nm, s))
					names[x] = nm
					bound = append(bound, x)
				}
			}
			body := render(t.Args[0])
			if len(lets) > 0 {
				body = strings.Join(lets, "") + body + strings.Repeat(")", len(lets))
			}
			for _, x := range bound {
				delete(names, x)
			}
			if len(t.Pats) > 0 {
				var ps []string
				for _, p := range t.Pats {
					var qs []string
					for _, q := range p {
						qs = append(qs, render(q))
					}
					ps = append(ps, ":pattern ("+strings.Join(qs, " ")+")")
				}
				body = "(! " + body + " " + strings.Join(ps, " ") + ")"
			}
			return fmt.Sprintf("(%s (%s) %s)", t.Op, strings.Join(bs, " "), body)
		case "app":
			if len(t.Args) == 0 {
				return t.Name
			}
			var as []string
			for _, a := range t.Args {
				as = append(as, render(a))
			}
			return "(" + t.Name + " " + strings.Join(as, " ") + ")"
		case "extract":
			return fmt.Sprintf("((_ extract %d %d) %s)", t.Idx[0], t.Idx[1], render(t.Args[0]))
		case "zero_extend", "sign_extend":
			return fmt.Sprintf("((_ %s %d) %s)", t.Op, t.Idx[0], render(t.Args[0]))
		}
		var as []string
		for _, a := range t.Args {
			as = append(as, render(a))
		}
		return "(" + t.Op + " " + strings.Join(as, " ") + ")"
	}
	n := 0
	for _, t := range order {
		if t.hasBnd || len(t.Args) == 0 {
			continue
		}
		if refs[t] > 1 || len(t.Args) > 0 && termSize(t) > 6 {
			s := render(t)
			n++
			nm := fmt.Sprintf("d%d", n)
			fmt.Fprintf(&sb, "(define-fun %s () %s %s)\n", nm, t.Sort, s)
			names[t] = nm
		}
	}
	for i, a := range asserts {
		if i < len(comments) && comments[i] != "" {
			fmt.Fprintf(&sb, "; %s\n", strings.ReplaceAll(comments[i], "\n", " "))
		}
		fmt.Fprintf(&sb, "(assert %s)\n", render(a))
	}
	sb.WriteString("(check-sat)\n")
	if getModel {
		if len(modelTerms) > 0 {
			var ms []string
			for _, m := range modelTerms {
				ms = append(ms, render(m))
			}
			fmt.Fprintf(&sb, "(get-value (%s))\n", strings.Join(ms, " "))
		} else {
			sb.WriteString("(get-model)\n")
		}
	}
	return sb.String()
}

func termSize(t *Term) int {
	n := 1
	for _, a := range t.Args {
		n += 1 + len(a.Args)
	}
	return n
}
