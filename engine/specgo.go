package main

// Compiles spec expressions to Go source, for replaying counterexamples against
// the real code (the failed clause is evaluated by Go itself on the real result).

import (
	"strconv"
	"fmt"
	"go/types"
	"sort"
	"strings"
)

type goGen struct {
	fx      *FnCtx
	pkg     *types.Package
	specs   map[string]*SpecFunc // spec funcs needed
	imports map[string]string    // path -> name
	err     error
	hint    types.Type
	stubDecls []string
}

type goScope struct {
	vars   map[string]types.Type
	rename map[string]string // identifier renames (old_ snapshots)
	oldSc  *goScope
	nowSc  *goScope
}

func (s *goScope) child() *goScope {
	n := &goScope{vars: map[string]types.Type{}, rename: map[string]string{}, oldSc: s.oldSc, nowSc: s.nowSc}
	for k, v := range s.vars {
		n.vars[k] = v
	}
	for k, v := range s.rename {
		n.rename[k] = v
	}
	return n
}

func typeUnder(t types.Type) types.Type {
	if t == nil {
		return nil
	}
	return t.Underlying()
}

func (g *goGen) fail(f string, a ...interface{}) {
	if g.err == nil {
		g.err = fmt.Errorf(f, a...)
	}
}

func (g *goGen) typeStr(t types.Type) string {
	if t == nil {
		return "int"
	}
	return types.TypeString(t, func(p *types.Package) string {
		if p == g.pkg {
			return ""
		}
		g.imports[p.Path()] = p.Name()
		return p.Name()
	})
}

func (g *goGen) expr(e SpecExpr, sc *goScope) (string, types.Type) {
	hint := g.hint
	g.hint = nil
	if c, ok := e.(*SCall); ok && c.Fun == "ite" && len(c.Args) == 3 {
		cc, _ := g.expr(c.Args[0], sc)
		g.hint = hint
		a, ta := g.expr(c.Args[1], sc)
		g.hint = hint
		b, tb := g.expr(c.Args[2], sc)
		g.hint = nil
		t := ta
		if t == nil {
			t = tb
		}
		if t == nil {
			t = hint
		}
		return fmt.Sprintf("func() %s { if %s { return %s }; return %s }()", g.typeStr(t), cc, a, b), t
	}
	switch x := e.(type) {
	case *SNum:
		return x.Text, nil
	case *SStr:
		return strconv.Quote(x.Val), types.Typ[types.String]
	case *SChar:
		return fmt.Sprintf("%d", x.Val), nil
	case *SIdent:
		switch x.Name {
		case "true", "false":
			return x.Name, types.Typ[types.Bool]
		case "nil":
			return "nil", nil
		}
		if t, ok := sc.vars[x.Name]; ok {
			n := x.Name
			if r, ok := sc.rename[n]; ok {
				n = r
			}
			return n, t
		}
		if o := g.pkg.Scope().Lookup(x.Name); o != nil {
			if c, ok := o.(*types.Const); ok {
				t := c.Type()
				if b, ok := t.Underlying().(*types.Basic); ok && b.Info()&types.IsUntyped != 0 {
					t = nil
				}
				return x.Name, t
			}
		}
		g.fail("identifier %s not available in replay", x.Name)
		return "0", nil
	case *SUn:
		c, t := g.expr(x.X, sc)
		if x.Op == "*" && t != nil {
			if pt, ok := t.Underlying().(*types.Pointer); ok {
				t = pt.Elem()
			}
		}
		return "(" + x.Op + c + ")", t
	case *SBin:
		switch x.Op {
		case "==>":
			a, _ := g.expr(x.L, sc)
			b, _ := g.expr(x.R, sc)
			return "(!(" + a + ") || (" + b + "))", types.Typ[types.Bool]
		case "<==>":
			a, _ := g.expr(x.L, sc)
			b, _ := g.expr(x.R, sc)
			return "((" + a + ") == (" + b + "))", types.Typ[types.Bool]
		}
		a, ta := g.expr(x.L, sc)
		if x.Op != "<<" && x.Op != ">>" && ta != nil && isIntType(ta) {
			g.hint = ta // an ite of constants on the right takes the type of the left operand
		}
		b, tb := g.expr(x.R, sc)
		g.hint = nil
		if ta == nil && tb != nil && isIntType(tb) && x.Op != "<<" && x.Op != ">>" {
			g.hint = tb
			a, ta = g.expr(x.L, sc)
			g.hint = nil
		}
		if x.Op == "==" || x.Op == "!=" {
			_, sa := typeUnder(ta).(*types.Slice)
			_, sb := typeUnder(tb).(*types.Slice)
			if sa && sb {
				neg := ""
				if x.Op == "!=" {
					neg = "!"
				}
				return neg + "hvcSameSlice(" + a + ", " + b + ")", types.Typ[types.Bool]
			}
		}
		if x.Op != "<<" && x.Op != ">>" && ta != nil && tb != nil && isIntType(ta) && isIntType(tb) && !types.Identical(ta, tb) {
			// operands of different integer types (an ite of constants next to a typed value): the
			// specification means the mathematical value, so the right operand is converted
			b = g.typeStr(ta) + "(" + b + ")"
		}
		var rt types.Type
		switch x.Op {
		case "&&", "||", "==", "!=", "<", "<=", ">", ">=":
			rt = types.Typ[types.Bool]
		case "<<", ">>":
			rt = ta
		default:
			rt = ta
			if rt == nil {
				rt = tb
			}
		}
		return "(" + a + " " + x.Op + " " + b + ")", rt
	case *SIndex:
		b, tb := g.expr(x.X, sc)
		i, _ := g.expr(x.I, sc)
		var et types.Type
		if tb != nil {
			switch u := tb.Underlying().(type) {
			case *types.Slice:
				et = u.Elem()
			case *types.Array:
				et = u.Elem()
			case *types.Basic:
				et = types.Typ[types.Uint8]
			}
		}
		return b + "[" + i + "]", et
	case *SSlice:
		b, tb := g.expr(x.X, sc)
		lo, hi := "", ""
		if x.Lo != nil {
			lo, _ = g.expr(x.Lo, sc)
		}
		if x.Hi != nil {
			hi, _ = g.expr(x.Hi, sc)
		}
		return b + "[" + lo + ":" + hi + "]", tb
	case *SField:
		if id, ok := x.X.(*SIdent); ok {
			if _, isVar := sc.vars[id.Name]; !isVar {
				// qualified constant
				for _, imp := range g.pkg.Imports() {
					if imp.Name() == id.Name {
						if o := imp.Scope().Lookup(x.Name); o != nil {
							g.imports[imp.Path()] = imp.Name()
							t := o.Type()
							if b, ok := t.Underlying().(*types.Basic); ok && b.Info()&types.IsUntyped != 0 {
								t = nil
							}
							return id.Name + "." + x.Name, t
						}
					}
				}
			}
		}
		b, tb := g.expr(x.X, sc)
		var ft types.Type
		if tb != nil {
			u := tb.Underlying()
			if p, ok := u.(*types.Pointer); ok {
				u = p.Elem().Underlying()
			}
			if st, ok := u.(*types.Struct); ok {
				for i := 0; i < st.NumFields(); i++ {
					if st.Field(i).Name() == x.Name {
						ft = st.Field(i).Type()
					}
				}
			}
			if tup, ok := tb.(*types.Tuple); ok {
				_ = tup
				g.fail("tuple component in replay")
			}
		}
		return b + "." + x.Name, ft
	case *SQuant:
		if x.Lo == nil {
			g.fail("unbounded quantifier cannot be evaluated in replay")
			return "true", types.Typ[types.Bool]
		}
		lo, _ := g.expr(x.Lo, sc)
		hi, _ := g.expr(x.Hi, sc)
		sub := sc.child()
		sub.vars[x.Vars[0].Name] = types.Typ[types.Int]
		if sub.oldSc != nil {
			o := sub.oldSc.child()
			o.vars[x.Vars[0].Name] = types.Typ[types.Int]
			sub.oldSc = o
		}
		body, _ := g.expr(x.Body, sub)
		v := x.Vars[0].Name
		if x.Forall {
			return fmt.Sprintf("func() bool { for %s := int(%s); %s < int(%s); %s++ { if !(%s) { return false } }; return true }()", v, lo, v, hi, v, body), types.Typ[types.Bool]
		}
		return fmt.Sprintf("func() bool { for %s := int(%s); %s < int(%s); %s++ { if %s { return true } }; return false }()", v, lo, v, hi, v, body), types.Typ[types.Bool]
	case *SCall:
		return g.call(x, sc)
	}
	g.fail("unsupported spec expression in replay: %s", e.String())
	return "0", nil
}

func (g *goGen) call(x *SCall, sc *goScope) (string, types.Type) {
	switch x.Fun {
	case "old":
		if sc.oldSc == nil {
			g.fail("old() not available")
			return "0", nil
		}
		o := sc.oldSc.child()
		o.nowSc = sc
		return g.expr(x.Args[0], o)
	case "now":
		if sc.nowSc != nil {
			return g.expr(x.Args[0], sc.nowSc)
		}
		return g.expr(x.Args[0], sc)
	case "len", "cap":
		a, _ := g.expr(x.Args[0], sc)
		return x.Fun + "(" + a + ")", types.Typ[types.Int]
	case "ite":
		c, _ := g.expr(x.Args[0], sc)
		a, ta := g.expr(x.Args[1], sc)
		b, tb := g.expr(x.Args[2], sc)
		t := ta
		if t == nil {
			t = tb
		}
		return fmt.Sprintf("func() %s { if %s { return %s }; return %s }()", g.typeStr(t), c, a, b), t
	case "min", "max":
		a, ta := g.expr(x.Args[0], sc)
		b, tb := g.expr(x.Args[1], sc)
		t := ta
		if t == nil {
			t = tb
		}
		op := "<"
		if x.Fun == "max" {
			op = ">"
		}
		return fmt.Sprintf("func() %s { if %s %s %s { return %s }; return %s }()", g.typeStr(t), a, op, b, a, b), t
	case "div", "mod":
		a, _ := g.expr(x.Args[0], sc)
		b, _ := g.expr(x.Args[1], sc)
		return fmt.Sprintf("hvcFloor%s(int(%s), int(%s))", strings.Title(x.Fun), a, b), types.Typ[types.Int]
	case "fresh", "sameArray", "sameBacking":
		return "true", types.Typ[types.Bool]
	}
	if t := g.fx.resolveType(x.Fun, g.pkg); t != nil && len(x.Args) == 1 {
		a, _ := g.expr(x.Args[0], sc)
		return g.typeStr(t) + "(" + a + ")", t
	}
	env := &Env{pkg: g.pkg}
	sf := g.fx.lookupSpecFunc(env, x.Fun)
	if sf == nil {
		g.fail("unknown function %s", x.Fun)
		return "0", nil
	}
	if sf.Uninterp {
		if m, ok := g.fx.V.observerMethod(sf.Name); ok && len(x.Args) == 1 {
			// the observer of an interface method: evaluated by calling the method
			a, _ := g.expr(x.Args[0], sc)
			return "(" + a + ")." + m + "()", g.fx.resolveType(sf.Ret, g.pkg)
		}
		g.fail("uninterpreted spec function %s cannot be evaluated in replay", sf.Name)
		return "0", nil
	}
	g.specs[sf.Name] = sf
	var as []string
	for _, a := range x.Args {
		c, _ := g.expr(a, sc)
		as = append(as, c)
	}
	return "hvcS_" + sf.Name + "(" + strings.Join(as, ", ") + ")", g.fx.resolveType(sf.Ret, g.pkg)
}

// specFuncDecls renders all needed spec functions (transitively).
func (g *goGen) specFuncDecls() string {
	var sb strings.Builder
	done := map[string]bool{}
	for {
		var names []string
		for n := range g.specs {
			if !done[n] {
				names = append(names, n)
			}
		}
		if len(names) == 0 {
			break
		}
		sort.Strings(names)
		for _, n := range names {
			done[n] = true
			sf := g.specs[n]
			sc := &goScope{vars: map[string]types.Type{}, rename: map[string]string{}}
			var ps []string
			for _, p := range sf.Params {
				t := g.fx.resolveType(p.Type, g.pkg)
				sc.vars[p.Name] = t
				ps = append(ps, p.Name+" "+g.typeStr(t))
			}
			rt := g.fx.resolveType(sf.Ret, g.pkg)
			g.hint = rt
			body, _ := g.expr(sf.Body, sc)
			fmt.Fprintf(&sb, "func hvcS_%s(%s) %s { return %s }\n", sf.Name, strings.Join(ps, ", "), g.typeStr(rt), body)
		}
	}
	sb.WriteString("func hvcSameSlice[T any](a, b []T) bool { return len(a) == len(b) && (len(a) == 0 && (a == nil) == (b == nil) || len(a) > 0 && &a[0] == &b[0]) }\n")
	sb.WriteString("func hvcFloorDiv(a, b int) int { q := a / b; if (a%b != 0) && ((a < 0) != (b < 0)) { q-- }; return q }\n")
	sb.WriteString("func hvcFloorMod(a, b int) int { return a - b*hvcFloorDiv(a, b) }\n")
	return sb.String()
}
