package main

// Discharging obligations: SMT-LIB generation and a solver portfolio.

import (
	"bytes"
	"context"
	"fmt"
	"os"
	"os/exec"
	"path/filepath"
	"strings"
	"sync"
	"time"
)

type solverSpec struct {
	Name string
	Args func(timeoutS int, file string) []string
}

var solvers = []solverSpec{
	{"z3-new", func(t int, f string) []string { return []string{"z3-new", fmt.Sprintf("-T:%d", t), f} }},
	{"cvc5", func(t int, f string) []string {
		return []string{"cvc5", "--produce-models", fmt.Sprintf("--tlimit=%d", t*1000), f}
	}},
	{"z3", func(t int, f string) []string { return []string{"z3", fmt.Sprintf("-T:%d", t), f} }},
}

func (o *Obligation) script(withModel bool) string {
	root := o.Root
	var asserts []*Term
	var comments []string
	for _, a := range root.axioms {
		asserts = append(asserts, a)
		comments = append(comments, "")
	}
	for i := 0; i < o.NAssume && i < len(root.assumes); i++ {
		asserts = append(asserts, root.assumes[i])
		comments = append(comments, "")
	}
	asserts = append(asserts, o.Path)
	comments = append(comments, "path condition")
	asserts = append(asserts, Not(o.Cond))
	comments = append(comments, "negated goal: "+o.Desc)
	var modelTerms []*Term
	if withModel {
		for _, in := range root.inputs {
			for _, l := range in.V.L {
				if l.Sort.Kind != SArray {
					modelTerms = append(modelTerms, l)
				}
			}
			if in.V.P != nil {
				if in.V.P.Ref != nil {
					modelTerms = append(modelTerms, in.V.P.Ref)
				}
				if in.V.P.Arr != nil {
					modelTerms = append(modelTerms, in.V.P.Arr)
				}
			}
		}
	}
	_ = modelTerms
	return PrintScript(asserts, comments, withModel, nil)
}

type solveResult struct {
	Status string
	Solver string
	Time   float64
	Output string
}

func runSolver(ctx context.Context, s solverSpec, timeoutS int, file string) solveResult {
	args := s.Args(timeoutS, file)
	start := time.Now()
	cctx, cancel := context.WithTimeout(ctx, time.Duration(timeoutS+2)*time.Second)
	defer cancel()
	cmd := exec.CommandContext(cctx, args[0], args[1:]...)
	var out bytes.Buffer
	cmd.Stdout = &out
	cmd.Stderr = &out
	_ = cmd.Run()
	el := time.Since(start).Seconds()
	text := out.String()
	first := ""
	for _, ln := range strings.Split(text, "\n") {
		ln = strings.TrimSpace(ln)
		if ln == "" {
			continue
		}
		if ln == "sat" || ln == "unsat" || ln == "unknown" || ln == "timeout" {
			first = ln
			break
		}
		if strings.HasPrefix(ln, "(error") {
			first = "error"
			break
		}
	}
	if first == "" {
		if cctx.Err() != nil {
			first = "timeout"
		} else {
			first = "error"
		}
	}
	return solveResult{Status: first, Solver: s.Name, Time: el, Output: text}
}

// discharge races the solvers on one obligation.
func discharge(o *Obligation, outDir string, timeoutS int, which []solverSpec) {
	script := o.script(true)
	fname := filepath.Join(outDir, sanitize(o.Name)+".smt2")
	if len(fname) > 200 {
		fname = fname[:200] + ".smt2"
	}
	_ = os.WriteFile(fname, []byte(script), 0o644)
	o.SMTFile = fname
	if len(script) > 8<<20 {
		o.Status = "error"
		o.Model = "VC too large"
		return
	}
	ctx, cancel := context.WithCancel(context.Background())
	defer cancel()
	ch := make(chan solveResult, len(which))
	for _, s := range which {
		s := s
		go func() { ch <- runSolver(ctx, s, timeoutS, fname) }()
	}
	var all []solveResult
	var winner *solveResult
	for range which {
		r := <-ch
		all = append(all, r)
		if r.Status == "unsat" || r.Status == "sat" {
			winner = &r
			cancel()
			break
		}
	}
	if winner != nil {
		o.Status, o.Solver, o.Time, o.Model = winner.Status, winner.Solver, winner.Time, winner.Output
		return
	}
	o.Status = "unknown"
	var parts []string
	tmax := 0.0
	for _, r := range all {
		parts = append(parts, fmt.Sprintf("%s:%s", r.Solver, r.Status))
		if r.Time > tmax {
			tmax = r.Time
		}
		if r.Status == "error" {
			o.Model += r.Solver + ": " + firstLines(r.Output, 3) + "\n"
		}
	}
	o.Solver = strings.Join(parts, ",")
	o.Time = tmax
}

func firstLines(s string, n int) string {
	ls := strings.Split(strings.TrimSpace(s), "\n")
	if len(ls) > n {
		ls = ls[:n]
	}
	return strings.Join(ls, " | ")
}

func dischargeAll(obls []*Obligation, outDir string, timeoutS int, par int) {
	_ = os.MkdirAll(outDir, 0o755)
	sem := make(chan struct{}, par)
	var wg sync.WaitGroup
	var mu sync.Mutex
	// scripts must be generated sequentially (term store is not thread-safe): pre-render
	type job struct {
		o *Obligation
	}
	for _, o := range obls {
		mu.Lock()
		script := o.script(true)
		mu.Unlock()
		fname := filepath.Join(outDir, sanitize(o.Name)+".smt2")
		_ = os.WriteFile(fname, []byte(script), 0o644)
		o.SMTFile = fname
		if len(script) > 8<<20 {
			o.Status = "error"
			o.Model = "VC too large"
			continue
		}
		wg.Add(1)
		sem <- struct{}{}
		go func(o *Obligation) {
			defer wg.Done()
			defer func() { <-sem }()
			raceFile(o, timeoutS)
		}(o)
	}
	wg.Wait()
}

func raceFile(o *Obligation, timeoutS int) {
	ctx, cancel := context.WithCancel(context.Background())
	defer cancel()
	ch := make(chan solveResult, len(solvers))
	for _, s := range solvers {
		s := s
		go func() { ch <- runSolver(ctx, s, timeoutS, o.SMTFile) }()
	}
	var all []solveResult
	for range solvers {
		r := <-ch
		all = append(all, r)
		if r.Status == "unsat" || r.Status == "sat" {
			o.Status, o.Solver, o.Time, o.Model = r.Status, r.Solver, r.Time, r.Output
			cancel()
			return
		}
	}
	o.Status = "unknown"
	var parts []string
	for _, r := range all {
		parts = append(parts, fmt.Sprintf("%s:%s", r.Solver, r.Status))
		if r.Time > o.Time {
			o.Time = r.Time
		}
		if r.Status == "error" {
			o.Model += r.Solver + ": " + firstLines(r.Output, 3) + "\n"
		}
	}
	o.Solver = strings.Join(parts, ",")
}
