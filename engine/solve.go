package main

// Discharging obligations: SMT-LIB generation and a solver portfolio.
//
// Each obligation is tried in up to three variants that differ only in which
// hypotheses are passed to the solver (dropping hypotheses is always sound for
// an `unsat` answer): quantifier-free hypotheses only; those plus quantified
// hypotheses that share symbols with the goal; all hypotheses. A `sat` answer
// counts as a counterexample only for the variant with all hypotheses.

import (
	"sync/atomic"
	"strconv"
	"sort"
	"bytes"
	"runtime"
	"context"
	"fmt"
	"os"
	"os/exec"
	"path/filepath"
	"strings"
	"sync"
	"time"
)

type solverSpec struct {
	Name string
	Args func(timeoutS int, file string) []string
}

var solvers = []solverSpec{
	{"z3-new", func(t int, f string) []string { return []string{"z3-new", fmt.Sprintf("-T:%d", t), f} }},
	{"cvc5", func(t int, f string) []string {
		return []string{"cvc5", "--produce-models", fmt.Sprintf("--tlimit=%d", t*1000), f}
	}},
	{"z3", func(t int, f string) []string { return []string{"z3", fmt.Sprintf("-T:%d", t), f} }},
}

var quantCache = map[*Term]bool{}

func hasQuant(t *Term) bool {
	if v, ok := quantCache[t]; ok {
		return v
	}
	r := false
	if t.Op == "forall" || t.Op == "exists" {
		r = true
	} else {
		for _, a := range t.Args {
			if hasQuant(a) {
				r = true
				break
			}
		}
	}
	quantCache[t] = r
	return r
}

var hardCache = map[*Term]bool{}

// hasHardQuant: contains an existential, or a universal whose bound variable never
// occurs as an array index (nothing to trigger on).
func hasHardQuant(t *Term) bool {
	if v, ok := hardCache[t]; ok {
		return v
	}
	r := false
	switch t.Op {
	case "exists":
		r = true
	case "forall":
		for _, b := range t.Bound {
			if !usedAsIndex(t.Args[0], b, map[*Term]bool{}) {
				r = true
			}
		}
	}
	if !r {
		for _, a := range t.Args {
			if hasHardQuant(a) {
				r = true
				break
			}
		}
	}
	hardCache[t] = r
	return r
}

func usedAsIndex(t, b *Term, seen map[*Term]bool) bool {
	if seen[t] || !t.hasBnd {
		return false
	}
	seen[t] = true
	if (t.Op == "select" && t.Args[1] == b) || (t.Op == "app" && containsArg(t, b)) {
		return true
	}
	for _, a := range t.Args {
		if usedAsIndex(a, b, seen) {
			return true
		}
	}
	return false
}

func containsArg(t, b *Term) bool {
	for _, a := range t.Args {
		if a == b {
			return true
		}
	}
	return false
}

func symsOf(t *Term, into map[*Term]bool, seen map[*Term]bool) {
	if seen[t] {
		return
	}
	seen[t] = true
	if t.Op == "sym" {
		into[t] = true
	}
	if t.Op == "app" {
		into[Sym("uf_"+t.Name, BoolSort)] = true
	}
	for _, a := range t.Args {
		symsOf(a, into, seen)
	}
}

type scriptVariant struct {
	name string
	text string
	full bool // same hypotheses as the full variant
}

func (o *Obligation) hypotheses() []*Term {
	root := o.Root
	var hs []*Term
	hs = append(hs, root.axioms...)
	for i := 0; i < o.NAssume && i < len(root.assumes); i++ {
		hs = append(hs, root.assumes[i])
	}
	return hs
}

// splitConj splits a hypothesis into its conjuncts (also under an implication), so that the
// quantifier-free part of an invariant is still available when quantified hypotheses are dropped.
func splitConj(h *Term, out []*Term) []*Term {
	switch {
	case h.Op == "and":
		for _, a := range h.Args {
			out = splitConj(a, out)
		}
		return out
	case h.Op == "=>" && h.Args[1].Op == "and" && hasQuant(h.Args[1]):
		for _, a := range h.Args[1].Args {
			out = splitConj(Implies(h.Args[0], a), out)
		}
		return out
	}
	return append(out, h)
}

func (o *Obligation) variants() []scriptVariant {
	hs0 := o.hypotheses()
	nAxioms := len(o.Root.axioms)
	var hs []*Term
	var tags []string
	for i, h := range hs0 {
		tag := ""
		if i >= nAxioms && i-nAxioms < len(o.Root.assumeNotes) {
			tag = o.Root.assumeNotes[i-nAxioms]
		}
		parts := splitConj(h, nil)
		for _, p := range parts {
			hs = append(hs, p)
			tags = append(tags, tag)
		}
	}
	goal := []*Term{o.Path, Not(skolemize(o.Cond))}
	var qf, quant []*Term
	for _, h := range hs {
		if hasQuant(h) {
			quant = append(quant, h)
		} else {
			qf = append(qf, h)
		}
	}
	mkScript := func(sel []*Term) string {
		as := append(append([]*Term{}, sel...), goal...)
		cm := make([]string, len(as))
		cm[len(as)-2] = "path condition"
		cm[len(as)-1] = "negated goal: " + o.Desc
		return PrintScript(as, cm, true, nil)
	}
	full := mkScript(hs)
	if len(quant) == 0 {
		return []scriptVariant{{"full", full, true}}
	}
	out := []scriptVariant{{"qf", mkScript(qf), false}}
	// "inst": the quantifier-free hypotheses plus the instances of the bounded quantified ones at
	// the array indices read in the goal and the path condition (see inst.go)
	{
		gm := map[*Term]bool{}
		sn := map[*Term]bool{}
		for _, g := range goal {
			groundReadIndices(g, gm, sn)
		}
		var grounds []*Term
		for g := range gm {
			grounds = append(grounds, g)
		}
		sort.Slice(grounds, func(i, j int) bool { return grounds[i].id < grounds[j].id })
		if len(grounds) > 0 && len(grounds) <= 40 {
			inst := append([]*Term{}, qf...)
			n := 0
			for _, h := range quant {
				is := instances(h, grounds, 40)
				inst = append(inst, is...)
				n += len(is)
			}
			if n > 0 && n <= 1500 {
				out = append(out, scriptVariant{"inst", mkScript(inst), false})
			}
		}
	}
	goalSyms := map[*Term]bool{}
	{
		seen := map[*Term]bool{}
		for _, g := range goal {
			symsOf(g, goalSyms, seen)
		}
	}
	// an engine axiom with a hard quantifier (definition of an opaque predicate with an
	// existential body) is only useful when the goal mentions that predicate
	engineOK := func(h *Term) bool {
		if !hasHardQuant(h) {
			return true
		}
		hsyms := map[*Term]bool{}
		symsOf(h, hsyms, map[*Term]bool{})
		for s := range hsyms {
			if strings.HasPrefix(s.Name, "uf_") && goalSyms[s] {
				return true
			}
		}
		return false
	}
	// "self": for a loop invariant clause, the quantified hypotheses that come from the engine
	// (copy/frame/range axioms) and from the same clause (plus clauses labelled shape*/core*)
	if o.Clause != nil && (o.Kind == "invariant-pres" || o.Kind == "invariant-entry") {
		var self []*Term
		nsel := 0
		for i, h := range hs {
			if !hasQuant(h) {
				self = append(self, h)
				continue
			}
			tag := tags[i]
			isDep := false
			for _, d := range o.Clause.Deps {
				if tag == "inv:"+d {
					isDep = true
				}
			}
			if (tag == "" && engineOK(h)) || tag == "inv:"+o.Clause.Label || isDep || strings.HasPrefix(tag, "inv:shape") || strings.HasPrefix(tag, "inv:core") {
				self = append(self, h)
				nsel++
			}
		}
		if nsel < len(quant) {
			out = append(out, scriptVariant{"self", mkScript(self), false})
		}
		// "lite": additionally every invariant clause that is a plain bounded forall
		// (no existential, no quantifier over an unbounded domain)
		var lite []*Term
		nl := 0
		for i, h := range hs {
			if !hasQuant(h) {
				lite = append(lite, h)
				continue
			}
			tag := tags[i]
			if (tag == "" && engineOK(h)) || tag == "inv:"+o.Clause.Label || (tag != "" && !hasHardQuant(h)) {
				lite = append(lite, h)
				nl++
			}
		}
		if nl > nsel && nl < len(quant) {
			out = append(out, scriptVariant{"lite", mkScript(lite), false})
		}
	}
	// relevance: quantified hypotheses sharing a symbol with goal (closure over qf hypotheses not attempted)
	gs := map[*Term]bool{}
	seen := map[*Term]bool{}
	for _, g := range goal {
		symsOf(g, gs, seen)
	}
	var rel []*Term
	rel = append(rel, qf...)
	nrel := 0
	for _, q := range quant {
		qs := map[*Term]bool{}
		symsOf(q, qs, map[*Term]bool{})
		share := false
		for s := range qs {
			if gs[s] && !strings.HasPrefix(s.Name, "nalloc") {
				share = true
				break
			}
		}
		if share {
			rel = append(rel, q)
			nrel++
		}
	}
	// "recent": the quantifier-free hypotheses and only the most recently assumed quantified ones
	// (the last intermediate assertions, the contract of the call just made): for a step that
	// follows from what was established just before it, everything older is noise
	{
		var recent []*Term
		nq := 0
		for i := len(hs) - 1; i >= 0; i-- {
			if hasQuant(hs[i]) {
				nq++
			}
		}
		keep := 10
		if v, err := strconv.Atoi(os.Getenv("HVC_RECENT")); err == nil && v > 0 {
			keep = v
		}
		seenQ := 0
		for i := len(hs) - 1; i >= 0; i-- {
			if !hasQuant(hs[i]) {
				recent = append(recent, hs[i])
				continue
			}
			if seenQ < keep {
				recent = append(recent, hs[i])
				seenQ++
			}
		}
		if nq > keep {
			// restore chronological order
			for l, r := 0, len(recent)-1; l < r; l, r = l+1, r-1 {
				recent[l], recent[r] = recent[r], recent[l]
			}
			out = append(out, scriptVariant{"recent", mkScript(recent), false})
		}
	}
	// "tight": only the quantified hypotheses that share a heap (array-sorted symbol) or an
	// uninterpreted predicate with the goal formula itself, leaving the path condition out of the
	// relevance test (a subset of the hypotheses: unsat here is unsat in full)
	{
		cs := map[*Term]bool{}
		symsOf(Not(o.Cond), cs, map[*Term]bool{})
		key := map[*Term]bool{}
		for s := range cs {
			if (s.Sort != nil && s.Sort.Kind == SArray) || strings.HasPrefix(s.Name, "uf_") {
				key[s] = true
			}
		}
		if len(key) > 0 {
			var tight []*Term
			tight = append(tight, qf...)
			nt := 0
			for _, q := range quant {
				qs := map[*Term]bool{}
				symsOf(q, qs, map[*Term]bool{})
				for s := range qs {
					if key[s] {
						tight = append(tight, q)
						nt++
						break
					}
				}
			}
			if nt > 0 && nt < nrel {
				out = append(out, scriptVariant{"tight", mkScript(tight), false})
			}
		}
	}
	if nrel > 0 && nrel < len(quant) {
		out = append(out, scriptVariant{"rel", mkScript(rel), false})
	}
	out = append(out, scriptVariant{"full", full, true})
	return out
}

type solveResult struct {
	Status string
	Solver string
	Time   float64
	Output string
}

// procSem bounds the number of solver processes running at once, so that each has a core to
// itself and wall-clock time limits mean what they say (the sandbox has 16 cores).
var procSem = make(chan struct{}, solverProcs())

func solverProcs() int {
	n := runtime.NumCPU() - 2
	if n > 14 {
		n = 14
	}
	if n < 2 {
		n = 2
	}
	return n
}

// rescueSolvers: further configurations tried, one obligation at a time, before an obligation is
// given up as undecided (different random seeds and instantiation strategies change which
// quantifier instances are found first).
var rescueSolvers = []solverSpec{
	{"z3-new", func(t int, f string) []string { return []string{"z3-new", fmt.Sprintf("-T:%d", t), f} }},
	{"z3-new/seed7", func(t int, f string) []string {
		return []string{"z3-new", fmt.Sprintf("-T:%d", t), "smt.random_seed=7", "sat.random_seed=7", f}
	}},
	{"z3-new/seed23", func(t int, f string) []string {
		return []string{"z3-new", fmt.Sprintf("-T:%d", t), "smt.random_seed=23", "sat.random_seed=23", f}
	}},
	{"cvc5", func(t int, f string) []string {
		return []string{"cvc5", "--produce-models", fmt.Sprintf("--tlimit=%d", t*1000), f}
	}},
	{"cvc5/enum", func(t int, f string) []string {
		return []string{"cvc5", "--produce-models", "--enum-inst", fmt.Sprintf("--tlimit=%d", t*1000), f}
	}},
	{"z3", func(t int, f string) []string { return []string{"z3", fmt.Sprintf("-T:%d", t), f} }},
	{"z3/seed7", func(t int, f string) []string {
		return []string{"z3", fmt.Sprintf("-T:%d", t), "smt.random_seed=7", f}
	}},
}

// rescue runs every variant of an undecided obligation on every rescue configuration, with nothing
// else running, and a tripled time limit.
func rescue(j *solveJob, timeoutS int) {
	o := j.o
	start := time.Now()
	ctx, cancel := context.WithCancel(context.Background())
	defer cancel()
	type res struct {
		r    solveResult
		vi   int
		full bool
	}
	ch := make(chan res, 64)
	n := 0
	for i := range j.vars {
		if i == 0 && len(j.vars) > 1 && !j.vars[0].full {
			continue // the quantifier-free abstraction was decisive or it is useless
		}
		for _, sv := range rescueSolvers {
			n++
			go func(i int, sv solverSpec, full bool) {
				ch <- res{runSolver(ctx, sv, timeoutS, j.files[i]), i, full}
			}(i, sv, j.vars[i].full)
		}
	}
	for k := 0; k < n; k++ {
		x := <-ch
		if x.r.Status == "unsat" || (x.r.Status == "sat" && x.full) {
			o.Status, o.Solver, o.Model = x.r.Status, x.r.Solver+"/"+j.vars[x.vi].name+"/rescue", x.r.Output
			o.SMTFile = j.files[x.vi]
			break
		}
	}
	o.Time += time.Since(start).Seconds()
}

func runSolver(ctx context.Context, s solverSpec, timeoutS int, file string) solveResult {
	select {
	case procSem <- struct{}{}:
		defer func() { <-procSem }()
	case <-ctx.Done():
		return solveResult{Status: "cancelled", Solver: s.Name}
	}
	args := s.Args(timeoutS, file)
	start := time.Now()
	cctx, cancel := context.WithTimeout(ctx, time.Duration(timeoutS+2)*time.Second)
	defer cancel()
	cmd := exec.CommandContext(cctx, args[0], args[1:]...)
	var out bytes.Buffer
	cmd.Stdout = &out
	cmd.Stderr = &out
	_ = cmd.Run()
	el := time.Since(start).Seconds()
	text := out.String()
	first := ""
	for _, ln := range strings.Split(text, "\n") {
		ln = strings.TrimSpace(ln)
		if ln == "" {
			continue
		}
		if ln == "sat" || ln == "unsat" || ln == "unknown" || ln == "timeout" {
			first = ln
			break
		}
		if strings.HasPrefix(ln, "(error") {
			first = "error"
			break
		}
	}
	if first == "" {
		if cctx.Err() != nil {
			first = "timeout"
		} else {
			first = "error"
		}
	}
	return solveResult{Status: first, Solver: s.Name, Time: el, Output: text}
}

func firstLines(s string, n int) string {
	ls := strings.Split(strings.TrimSpace(s), "\n")
	if len(ls) > n {
		ls = ls[:n]
	}
	return strings.Join(ls, " | ")
}

type solveJob struct {
	o     *Obligation
	files []string
	vars  []scriptVariant
}

var noRetry bool

var failedSoFar int32
var failFast int

func dischargeAll(obls []*Obligation, outDir string, timeoutS int, par int) {
	_ = os.MkdirAll(outDir, 0o755)
	failFast, _ = strconv.Atoi(os.Getenv("HVC_FAILFAST"))
	if os.Getenv("HVC_NORESCUE") != "" {
		// runs that are expected to fail (must-fail corpus): no second and third chances
		defer func(old bool) { noRetry = old }(noRetry)
		noRetry = true
	}
	if par > 8 {
		par = 8 // jobs in flight; the number of solver processes is bounded separately by procSem
	}
	sem := make(chan struct{}, par)
	var wg sync.WaitGroup
	var jobs []*solveJob
	for _, o := range obls {
		// scripts are rendered sequentially: the term store is not thread-safe
		vs := o.variants()
		job := &solveJob{o: o, vars: vs}
		tooBig := false
		for _, v := range vs {
			fname := filepath.Join(outDir, sanitize(o.Name)+"."+v.name+".smt2")
			_ = os.WriteFile(fname, []byte(v.text), 0o644)
			job.files = append(job.files, fname)
			if v.full {
				o.SMTFile = fname
				if len(v.text) > 8<<20 {
					tooBig = true
				}
			}
		}
		if tooBig {
			o.Status = "error"
			o.Model = "VC too large"
			continue
		}
		jobs = append(jobs, job)
		wg.Add(1)
		sem <- struct{}{}
		go func(j *solveJob) {
			defer wg.Done()
			defer func() { <-sem }()
			if failFast > 0 && atomic.LoadInt32(&failedSoFar) >= int32(failFast) {
				// must-fail corpus only (HVC_FAILFAST): enough obligations have failed after full
				// treatment; the rest of the queue is not run
				j.o.Status = "unknown"
				j.o.Solver = "not run (HVC_FAILFAST)"
				return
			}
			runJob(j, timeoutS)
			if j.o.Status != "unsat" && j.o.Kind != "vacuity" {
				atomic.AddInt32(&failedSoFar, 1)
			}
		}(job)
	}
	wg.Wait()
	// second chance: obligations left undecided (possibly because the machine was saturated)
	// are retried two at a time with a doubled time limit
	sem2 := make(chan struct{}, 2)
	for _, j := range jobs {
		if j.o.Status != "unknown" || noRetry || j.o.Kind == "vacuity" {
			continue
		}
		wg.Add(1)
		sem2 <- struct{}{}
		go func(j *solveJob) {
			defer wg.Done()
			defer func() { <-sem2 }()
			first := j.o.Time
			j.o.Model = ""
			runJob(j, 2*timeoutS)
			j.o.Time += first
			if j.o.Status == "unsat" {
				j.o.Solver += "/retry"
			}
		}(j)
	}
	wg.Wait()
	// last resort, one obligation at a time on an otherwise idle machine: more solver
	// configurations and three times the time limit. An obligation is reported as undecided
	// only after this.
	for _, j := range jobs {
		if j.o.Status != "unknown" || noRetry || j.o.Kind == "vacuity" {
			continue
		}
		rescue(j, 3*timeoutS)
	}
}

func runJob(j *solveJob, timeoutS int) {
	o := j.o
	total := 0.0
	start := time.Now()
	if o.Kind == "vacuity" {
		// a contradiction among the hypotheses is found quickly or not at all; only `unsat` matters here
		last := len(j.vars) - 1
		r, _ := race(j.files[last], 3)
		o.Status, o.Solver, o.Time = r.Status, r.Solver+"/vacuity", r.Time
		if r.Status != "unsat" && r.Status != "sat" {
			o.Status = "unknown"
		}
		return
	}
	// stage 1: the first variant alone (quantifier-free hypotheses, or the only variant)
	first := j.vars[0]
	t1 := timeoutS
	if !first.full && t1 > 3 {
		t1 = 3
	}
	r, all := race(j.files[0], t1)
	total += r.Time
	if r.Status == "unsat" || (r.Status == "sat" && first.full) {
		o.Status, o.Solver, o.Time, o.Model = r.Status, r.Solver+"/"+first.name, total, r.Output
		o.SMTFile = j.files[0]
		return
	}
	if len(j.vars) == 1 {
		o.Status, o.Time = "unknown", total
		var notes []string
		for _, x := range all {
			notes = append(notes, fmt.Sprintf("%s:%s", x.Solver, x.Status))
		}
		o.Solver = strings.Join(notes, ",")
		return
	}
	// stage 2: all remaining variants concurrently, each with the full time limit; the variants with
	// reduced hypotheses run on z3-new and cvc5, the full variant on all three solvers
	type res struct {
		r    solveResult
		vi   int
		full bool
	}
	ctx, cancel := context.WithCancel(context.Background())
	defer cancel()
	ch := make(chan res, 16)
	n := 0
	for i := 1; i < len(j.vars); i++ {
		v := j.vars[i]
		// every solver on every variant: each of the three is the only one to decide some obligations
		ss := solvers
		for _, sv := range ss {
			n++
			go func(i int, sv solverSpec, full bool) {
				ch <- res{runSolver(ctx, sv, timeoutS, j.files[i]), i, full}
			}(i, sv, v.full)
		}
	}
	var notes []string
	for k := 0; k < n; k++ {
		x := <-ch
		if x.r.Status == "unsat" || (x.r.Status == "sat" && x.full) {
			o.Status, o.Solver, o.Model = x.r.Status, x.r.Solver+"/"+j.vars[x.vi].name, x.r.Output
			o.Time = time.Since(start).Seconds()
			o.SMTFile = j.files[x.vi]
			return
		}
		if x.full {
			notes = append(notes, fmt.Sprintf("%s:%s", x.r.Solver, x.r.Status))
			if x.r.Status == "error" {
				o.Model += x.r.Solver + ": " + firstLines(x.r.Output, 3) + "\n"
			}
		}
	}
	o.Status = "unknown"
	o.Solver = strings.Join(notes, ",")
	o.Time = time.Since(start).Seconds()
}

// race runs all solvers on one file and returns the first decisive answer.
func race(file string, timeoutS int) (solveResult, []solveResult) {
	ctx, cancel := context.WithCancel(context.Background())
	defer cancel()
	ch := make(chan solveResult, len(solvers))
	for _, s := range solvers {
		s := s
		go func() { ch <- runSolver(ctx, s, timeoutS, file) }()
	}
	var all []solveResult
	best := solveResult{Status: "unknown"}
	for range solvers {
		r := <-ch
		all = append(all, r)
		if r.Status == "unsat" || r.Status == "sat" {
			return r, all
		}
		if r.Time > best.Time {
			best.Time = r.Time
		}
	}
	return best, all
}
