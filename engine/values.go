package main

// Engine values, leaf layout of Go types, pointers and the memory state.

import (
	"regexp"
	"fmt"
	"go/types"
	"sort"
	"strings"

	"golang.org/x/tools/go/ssa"
)

type Mode int

const (
	ModeBV Mode = iota
	ModeInt
)

func (m Mode) String() string {
	if m == ModeBV {
		return "bv"
	}
	return "int"
}

// Leaf describes one SMT-level component of a Go value.
type Leaf struct {
	Path string
	Sort *Sort
	T    types.Type // Go type of the leaf where it is an integer/bool; nil for synthetic (id/off/len/cap/ref/tag)
	Kind string     // "int" "bool" "id" "off" "len" "cap" "ref" "tag" "float" "fn"
}

type Layout struct {
	Leaves []Leaf
}

type Tcx struct {
	Mode    Mode
	layouts map[string]*Layout
	relaxRefs bool // the function under verification lives in a package with embedded objects
}

func NewTcx(m Mode) *Tcx { return &Tcx{Mode: m, layouts: map[string]*Layout{}} }

func (tc *Tcx) IdxSort() *Sort {
	if tc.Mode == ModeBV {
		return BVSort(64)
	}
	return IntSort
}

func basicWidth(b *types.Basic) (w int, signed bool, ok bool) {
	switch b.Kind() {
	case types.Int8:
		return 8, true, true
	case types.Int16:
		return 16, true, true
	case types.Int32:
		return 32, true, true
	case types.Int64, types.Int:
		return 64, true, true
	case types.Uint8:
		return 8, false, true
	case types.Uint16:
		return 16, false, true
	case types.Uint32:
		return 32, false, true
	case types.Uint64, types.Uint, types.Uintptr:
		return 64, false, true
	case types.UntypedInt, types.UntypedRune:
		return 64, true, true
	}
	return 0, false, false
}

func intInfo(t types.Type) (w int, signed bool, ok bool) {
	if t == nil {
		return 0, false, false
	}
	b, isb := t.Underlying().(*types.Basic)
	if !isb {
		return 0, false, false
	}
	return basicWidth(b)
}

func isIntType(t types.Type) bool { _, _, ok := intInfo(t); return ok }
func isBoolType(t types.Type) bool {
	b, ok := t.Underlying().(*types.Basic)
	return ok && b.Info()&types.IsBoolean != 0
}
func isStringType(t types.Type) bool {
	b, ok := t.Underlying().(*types.Basic)
	return ok && b.Info()&types.IsString != 0
}
func isFloatType(t types.Type) bool {
	b, ok := t.Underlying().(*types.Basic)
	return ok && b.Info()&(types.IsFloat|types.IsComplex) != 0
}

func (tc *Tcx) IntSortOf(t types.Type) *Sort {
	w, _, ok := intInfo(t)
	if !ok {
		panic("not an int type: " + t.String())
	}
	if tc.Mode == ModeBV {
		return BVSort(w)
	}
	return IntSort
}

var aliasWord = regexp.MustCompile(`\b(byte|rune)\b`)

// typeKey names a type; the predeclared aliases byte and rune are written as uint8 and int32 so that
// one Go type has one key (and one heap).
func typeKey(t types.Type) string {
	s := types.TypeString(t, func(p *types.Package) string { return p.Path() })
	if strings.Contains(s, "byte") || strings.Contains(s, "rune") {
		s = aliasWord.ReplaceAllStringFunc(s, func(w string) string {
			if w == "byte" {
				return "uint8"
			}
			return "int32"
		})
	}
	return s
}

// Layout returns the flattened leaves of a type.
func (tc *Tcx) Layout(t types.Type) *Layout {
	k := typeKey(t)
	if l, ok := tc.layouts[k]; ok {
		return l
	}
	l := &Layout{}
	tc.layouts[k] = l // recursion guard (pointers break recursion anyway)
	l.Leaves = tc.leavesOf(t, "")
	return l
}

func (tc *Tcx) leavesOf(t types.Type, prefix string) []Leaf {
	ix := tc.IdxSort()
	switch u := t.Underlying().(type) {
	case *types.Basic:
		switch {
		case u.Info()&types.IsBoolean != 0:
			return []Leaf{{prefix, BoolSort, t, "bool"}}
		case u.Info()&types.IsInteger != 0:
			return []Leaf{{prefix, tc.IntSortOf(t), t, "int"}}
		case u.Info()&types.IsString != 0:
			return []Leaf{{prefix + ".id", ix, nil, "id"}, {prefix + ".off", ix, nil, "off"}, {prefix + ".len", ix, nil, "len"}}
		case u.Info()&(types.IsFloat|types.IsComplex) != 0:
			return []Leaf{{prefix, ix, t, "float"}}
		case u.Kind() == types.UnsafePointer:
			return []Leaf{{prefix + ".ref", ix, nil, "ref"}}
		case u.Kind() == types.Invalid:
			return nil // unused component of a range tuple
		case u.Kind() == types.UntypedNil:
			return []Leaf{{prefix + ".ref", ix, nil, "ref"}}
		}
	case *types.Slice:
		return []Leaf{{prefix + ".id", ix, nil, "id"}, {prefix + ".off", ix, nil, "off"}, {prefix + ".len", ix, nil, "len"}, {prefix + ".cap", ix, nil, "cap"}}
	case *types.Pointer:
		return []Leaf{{prefix + ".ref", ix, nil, "ref"}}
	case *types.Map, *types.Chan:
		return []Leaf{{prefix + ".ref", ix, nil, "ref"}}
	case *types.Signature:
		return []Leaf{{prefix + ".fn", ix, nil, "fn"}}
	case *types.Interface:
		return []Leaf{{prefix + ".tag", ix, nil, "tag"}, {prefix + ".ref", ix, nil, "ref"}}
	case *types.Struct:
		var out []Leaf
		for i := 0; i < u.NumFields(); i++ {
			f := u.Field(i)
			if embeddedFields[f] {
				continue
			}
			out = append(out, tc.leavesOf(f.Type(), prefix+"."+f.Name())...)
		}
		return out
	case *types.Array:
		sub := tc.leavesOf(u.Elem(), prefix+"[]")
		out := make([]Leaf, len(sub))
		for i, s := range sub {
			out[i] = Leaf{s.Path, ArraySort(ix, s.Sort), s.T, s.Kind}
		}
		return out
	case *types.Tuple:
		var out []Leaf
		for i := 0; i < u.Len(); i++ {
			out = append(out, tc.leavesOf(u.At(i).Type(), fmt.Sprintf("%s#%d", prefix, i))...)
		}
		return out
	}
	panic("unsupported type in layout: " + t.String())
}

// fieldRange gives the leaf offset and count of field i in struct type st.
func (tc *Tcx) fieldRange(st *types.Struct, i int) (off, n int) {
	for j := 0; j < i; j++ {
		if embeddedFields[st.Field(j)] {
			continue
		}
		off += len(tc.Layout(st.Field(j).Type()).Leaves)
	}
	if embeddedFields[st.Field(i)] {
		return off, 0
	}
	n = len(tc.Layout(st.Field(i).Type()).Leaves)
	return
}

// embeddedFields: struct-typed fields declared `//@ embedded T.f`. Such a field is modelled as an
// object of its own (reference emb(parent, index)), because its address is stored or passed around
// (&c.root in a ring of *node, &c.mu passed to Lock); the parent's layout does not contain it.
var embeddedFields = map[*types.Var]bool{}

const embBase = int64(1) << 62

// validRef: v is below the allocation counter, or (only when embedded objects are in use) an
// embedded-object reference.
func (tc *Tcx) validRef(v, nalloc *Term) *Term {
	if !tc.relaxRefs {
		return tc.IdxLt(v, nalloc)
	}
	return Or(tc.IdxLt(v, nalloc), tc.IdxLe(tc.IdxNum(embBase), v))
}

// embRef is the reference of the embedded object at field index idx of the object parent.
func (tc *Tcx) embRef(parent *Term, idx int) *Term {
	if tc.Mode == ModeBV {
		return bvBin("bvadd", bvBin("bvadd", bvBin("bvmul", parent, BVNum(64, 64)), BVNum(int64(idx)+1, 64)), BVNum(embBase, 64))
	}
	return IAdd(IAdd(IMul(parent, IntNum(64)), IntNum(int64(idx)+1)), IntNum(embBase))
}

// PtrInfo is an engine-level pointer.
type PtrKind int

const (
	PLocal PtrKind = iota // local region (non-escaping alloc)
	PObj                  // heap object of type Root at reference Ref
	PElem                 // element Idx of backing array Arr (elements of type Root)
	PGlobal               // package-level variable
	PMap                  // frame items only: the contents of a map
	PGhost                // frame items only: a ghost field (lock state) of an object
)

type PtrInfo struct {
	Kind   PtrKind
	Region *Region
	Global *ssa.Global
	Ref    *Term
	Arr    *Term
	Idx    *Term
	Root   types.Type
	Off    int
	Typ    types.Type // type pointed to
	ArrIdx []*Term    // indices applied to array-sorted leaves (outermost first)
}

type Region struct {
	Name string
	T    types.Type
	id   int
}

type Value struct {
	T  types.Type
	L  []*Term
	P  *PtrInfo
	Fn *FuncVal
}

type FuncVal struct {
	Fn       *ssa.Function
	Bindings []Value
}

func (v Value) IsPtr() bool { return v.P != nil }

func (v Value) String() string {
	var ss []string
	for _, l := range v.L {
		ss = append(ss, fmt.Sprintf("t%d", l.id))
	}
	return fmt.Sprintf("%v{%s}", v.T, strings.Join(ss, ","))
}

// State is the symbolic memory at a program point.
type State struct {
	Heaps   map[string]*Term // object heaps "O:<type><path>" and array heaps "A:<type><path>"
	Locals  map[*Region]Value
	Globals map[*ssa.Global]Value
	NAlloc  *Term
	Ghost   map[string]Value
}

func (s *State) Clone() *State {
	n := &State{Heaps: make(map[string]*Term, len(s.Heaps)), Locals: make(map[*Region]Value, len(s.Locals)),
		Globals: make(map[*ssa.Global]Value, len(s.Globals)), NAlloc: s.NAlloc, Ghost: make(map[string]Value, len(s.Ghost))}
	for k, v := range s.Heaps {
		n.Heaps[k] = v
	}
	for k, v := range s.Locals {
		n.Locals[k] = v
	}
	for k, v := range s.Globals {
		n.Globals[k] = v
	}
	for k, v := range s.Ghost {
		n.Ghost[k] = v
	}
	return n
}

func sortedKeys(m map[string]*Term) []string {
	var ks []string
	for k := range m {
		ks = append(ks, k)
	}
	sort.Strings(ks)
	return ks
}

func iteValue(c *Term, a, b Value) (Value, error) {
	if a.P != nil || b.P != nil {
		if a.P != nil && b.P != nil && samePtr(a.P, b.P) {
			return a, nil
		}
		if a.P != nil && b.P != nil && a.P.Kind == b.P.Kind && a.P.Kind == PObj && a.P.Off == b.P.Off && len(a.P.ArrIdx) == 0 && len(b.P.ArrIdx) == 0 && types.Identical(a.P.Root, b.P.Root) {
			p := *a.P
			p.Ref = Ite(c, a.P.Ref, b.P.Ref)
			return Value{T: a.T, P: &p}, nil
		}
		if a.P != nil && b.P != nil && a.P.Kind == PElem && b.P.Kind == PElem && a.P.Off == b.P.Off && len(a.P.ArrIdx) == 0 && len(b.P.ArrIdx) == 0 && types.Identical(a.P.Root, b.P.Root) {
			p := *a.P
			p.Arr = Ite(c, a.P.Arr, b.P.Arr)
			p.Idx = Ite(c, a.P.Idx, b.P.Idx)
			return Value{T: a.T, P: &p}, nil
		}
		// a whole-object pointer against a plain reference (nil or a loaded pointer)
		whole := func(v Value) (*Term, bool) {
			if v.P != nil {
				if v.P.Kind == PObj && v.P.Off == 0 && len(v.P.ArrIdx) == 0 && types.Identical(v.P.Root, v.P.Typ) {
					return v.P.Ref, true
				}
				return nil, false
			}
			if len(v.L) == 1 {
				return v.L[0], true
			}
			return nil, false
		}
		if ra, ok := whole(a); ok {
			if rb, ok := whole(b); ok {
				t := a.T
				if t == nil {
					t = b.T
				}
				return Value{T: t, L: []*Term{Ite(c, ra, rb)}}, nil
			}
		}
		return Value{}, fmt.Errorf("cannot merge distinct engine-level pointers of type %v", a.T)
	}
	if a.Fn != nil || b.Fn != nil {
		if a.Fn != nil && b.Fn != nil && a.Fn.Fn == b.Fn.Fn && len(a.Fn.Bindings) == 0 {
			return a, nil
		}
		return Value{}, fmt.Errorf("cannot merge distinct function values")
	}
	if len(a.L) != len(b.L) {
		return Value{}, fmt.Errorf("merge of values with different layouts: %v vs %v", a.T, b.T)
	}
	out := Value{T: a.T, L: make([]*Term, len(a.L))}
	for i := range a.L {
		out.L[i] = Ite(c, a.L[i], b.L[i])
	}
	return out, nil
}

func samePtr(a, b *PtrInfo) bool {
	if a.Kind != b.Kind || a.Region != b.Region || a.Global != b.Global || a.Ref != b.Ref || a.Arr != b.Arr || a.Idx != b.Idx || a.Off != b.Off || len(a.ArrIdx) != len(b.ArrIdx) {
		return false
	}
	for i := range a.ArrIdx {
		if a.ArrIdx[i] != b.ArrIdx[i] {
			return false
		}
	}
	return true
}

// maxSliceLen bounds the length, capacity and offset of every slice and string in the model: 2^40
// elements (an address-space bound; a terabyte of bytes). Stated in the evidence as an assumption.
const maxSliceLen = 1 << 40
