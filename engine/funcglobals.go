package main

import (
	"go/types"
	"strings"

	"golang.org/x/tools/go/ssa"
)

var initOnlyFuncCache = map[*ssa.Global]*ssa.Function{}
var initOnlyFuncDone = map[*ssa.Global]bool{}

// initOnlyFunc: the package-level variable of function type is assigned exactly once in the whole
// program, in the initialiser of its package, from a named function (or from another such variable),
// and its address is taken nowhere: calls through it are calls of that function. For an exported
// variable this assumes that client code outside the module does not reassign it (reported).
func (v *Verifier) initOnlyFunc(g *ssa.Global) *ssa.Function {
	if initOnlyFuncDone[g] {
		return initOnlyFuncCache[g]
	}
	initOnlyFuncDone[g] = true
	if g.Pkg == nil {
		return nil
	}
	if _, ok := g.Type().(*types.Pointer).Elem().Underlying().(*types.Signature); !ok {
		return nil
	}
	var stored ssa.Value
	stores := 0
	good := true
	seen := map[*ssa.Function]bool{}
	var visit func(f *ssa.Function)
	visit = func(f *ssa.Function) {
		if f == nil || seen[f] {
			return
		}
		seen[f] = true
		for _, b := range f.Blocks {
			for _, ins := range b.Instrs {
				for _, op := range ins.Operands(nil) {
					if op == nil || *op != ssa.Value(g) {
						continue
					}
					switch t := ins.(type) {
					case *ssa.Store:
						if t.Addr != ssa.Value(g) {
							good = false
							continue
						}
						stores++
						isInit := f.Pkg == g.Pkg && (f.Name() == "init" || strings.HasPrefix(f.Name(), "init#"))
						if !isInit {
							good = false
						}
						stored = t.Val
					case *ssa.UnOp, *ssa.DebugRef:
					default:
						good = false
					}
				}
			}
		}
		for _, a := range f.AnonFuncs {
			visit(a)
		}
	}
	for _, p := range v.prog.AllPackages() {
		if !strings.HasPrefix(p.Pkg.Path(), "github.com/biogo/hts") {
			continue
		}
		for _, m := range p.Members {
			switch f := m.(type) {
			case *ssa.Function:
				visit(f)
			case *ssa.Type:
				for _, t := range []types.Type{f.Type(), types.NewPointer(f.Type())} {
					ms := v.prog.MethodSets.MethodSet(t)
					for i := 0; i < ms.Len(); i++ {
						visit(v.prog.MethodValue(ms.At(i)))
					}
				}
			}
		}
	}
	if !good || stores != 1 || stored == nil {
		return nil
	}
	for {
		switch t := stored.(type) {
		case *ssa.ChangeType:
			stored = t.X
			continue
		case *ssa.Function:
			initOnlyFuncCache[g] = t
			return t
		case *ssa.UnOp:
			if g2, ok := t.X.(*ssa.Global); ok && g2 != g {
				f := v.initOnlyFunc(g2)
				initOnlyFuncCache[g] = f
				return f
			}
		}
		return nil
	}
}
