package main

// Top-level verification of one function against its contract, contract calls,
// lemmas.

import (
	"os"
	"fmt"
	"go/types"
	"strings"

	"golang.org/x/tools/go/ssa"
)

func (v *Verifier) modeOf(fc *FuncContract) Mode {
	if fc != nil && fc.Mode == "bv" {
		return ModeBV
	}
	return ModeInt
}

func (v *Verifier) newRoot(name string, m Mode) *RootCtx {
	tc := v.tcs[m]
	r := &RootCtx{Name: name, heapAxiomDone: map[*Term]bool{}, counters: map[string]int{}, mode: m}
	r.entryNAlloc = Sym("nalloc0_"+m.String(), tc.IdxSort())
	return r
}

// paramValue creates the symbolic value of a parameter with its well-formedness facts.
func (fx *FnCtx) paramValue(name string, t types.Type, nullable bool) Value {
	tc := fx.tc
	base := "p_" + name
	switch u := t.Underlying().(type) {
	case *types.Pointer:
		if at, ok := u.Elem().Underlying().(*types.Array); ok {
			id := Fresh(base+".arr", tc.IdxSort())
			fx.assume(And(tc.IdxLt(tc.IdxNum(0), id), tc.IdxLt(id, fx.root.entryNAlloc)))
			return Value{T: t, P: &PtrInfo{Kind: PElem, Arr: id, Root: at.Elem(), Typ: u.Elem()}}
		}
		ref := Fresh(base+".ref", tc.IdxSort())
		lo := tc.IdxNum(1)
		if nullable {
			lo = tc.IdxNum(0)
		}
		fx.assume(And(tc.IdxLe(lo, ref), tc.validRef(ref, fx.root.entryNAlloc)))
		return Value{T: t, L: []*Term{ref}}
	case *types.Signature:
		fx.fail("function-typed parameter %s is outside the model", name)
	}
	v, facts := tc.FreshValue(t, base)
	for _, f := range facts {
		fx.assume(f)
	}
	// A slice or string parameter is viewed as starting at the first element of its own
	// backing array (offset 0): array ids are abstract and parameters are assumed not to
	// alias, so nothing before the first element is reachable. This keeps index terms free
	// of a symbolic offset, which quantifier instantiation depends on.
	switch u := t.Underlying().(type) {
	case *types.Slice:
		v.L[1] = tc.IdxNum(0)
	case *types.Basic:
		if u.Info()&types.IsString != 0 {
			v.L[1] = tc.IdxNum(0)
		}
	}
	fx.shapeFacts(v, t, 0)
	return v
}

// shapeFacts assumes well-formedness of slices/strings/references inside a parameter value.
func (fx *FnCtx) shapeFacts(v Value, t types.Type, off int) {
	tc := fx.tc
	big62 := tc.IntConstI64(maxSliceLen)
	switch u := t.Underlying().(type) {
	case *types.Slice:
		id, o, ln, cp := v.L[off], v.L[off+1], v.L[off+2], v.L[off+3]
		fx.assume(And(tc.IdxLe(tc.IdxNum(0), id), tc.IdxLt(id, fx.root.entryNAlloc),
			tc.IdxLe(tc.IdxNum(0), o), tc.IdxLe(tc.IdxNum(0), ln), tc.IdxLe(ln, cp),
			tc.IdxLe(tc.IdxAdd(o, cp), big62), tc.IdxLe(o, big62), tc.IdxLe(cp, big62),
			Implies(Eq(id, tc.IdxNum(0)), And(Eq(cp, tc.IdxNum(0)), Eq(o, tc.IdxNum(0))))))
	case *types.Basic:
		if u.Info()&types.IsString != 0 {
			id, o, ln := v.L[off], v.L[off+1], v.L[off+2]
			fx.assume(And(tc.IdxLe(tc.IdxNum(0), id), tc.IdxLt(id, fx.root.entryNAlloc),
				tc.IdxLe(tc.IdxNum(0), o), tc.IdxLe(tc.IdxNum(0), ln), tc.IdxLe(tc.IdxAdd(o, ln), big62), tc.IdxLe(o, big62), tc.IdxLe(ln, big62)))
		}
	case *types.Struct:
		for i := 0; i < u.NumFields(); i++ {
			fo, _ := tc.fieldRange(u, i)
			fx.shapeFacts(v, u.Field(i).Type(), off+fo)
		}
	case *types.Pointer, *types.Map, *types.Chan:
		fx.assume(And(tc.IdxLe(tc.IdxNum(0), v.L[off]), tc.validRef(v.L[off], fx.root.entryNAlloc)))
	case *types.Interface:
		fx.assume(And(tc.IdxLe(tc.IdxNum(0), v.L[off]), tc.IdxLe(tc.IdxNum(0), v.L[off+1]), tc.validRef(v.L[off+1], fx.root.entryNAlloc),
			Implies(Eq(v.L[off], tc.IdxNum(0)), Eq(v.L[off+1], tc.IdxNum(0)))))
	}
}

func (tc *Tcx) IntConstI64(v int64) *Term { return tc.IdxNum(v) }

// VerifyFunction generates all obligations for fn under contract fc.
func (v *Verifier) VerifyFunction(fn *ssa.Function, fc *FuncContract) (root *RootCtx, err error) {
	return v.VerifyFunctionBounded(fn, fc, 0)
}

// VerifyFunctionBounded: with boundedK > 0 every loop is unrolled boundedK times and longer
// executions are cut off; used only to search for concrete failing inputs.
func (v *Verifier) VerifyFunctionBounded(fn *ssa.Function, fc *FuncContract, boundedK int) (root *RootCtx, err error) {
	mode := v.modeOf(fc)
	pkg, name := funcKey(fn)
	short := pkg[strings.LastIndex(pkg, "/")+1:] + "." + name
	root = v.newRoot(short, mode)
	root.boundedK = boundedK
	v.tcs[mode].relaxRefs = false
	for _, e := range v.cs.Embedded {
		if strings.HasPrefix(e, pkg+".") {
			v.tcs[mode].relaxRefs = true
		}
	}
	// heap descriptions are per function: sorts depend on the integer mode of the function
	v.heapLeaves = map[string]heapInfo{}
	fx := &FnCtx{V: v, tc: v.tcs[mode], root: root, fn: fn, fc: fc, prefix: short,
		vals: map[ssa.Value]Value{}, params: map[string]Value{}, topLevel: true, regions: map[*ssa.Alloc]*Region{}}
	root.top = fx
	defer func() {
		if r := recover(); r != nil {
			if ee, ok := r.(execError); ok {
				err = ee
				return
			}
			if os.Getenv("HVC_PANIC") != "" {
				panic(r)
			}
			// an internal error of the generator on this function: the function's obligations cannot
			// be generated (reported like a function that left the verifiable subset, not as a crash
			// that hides the results for every other function)
			err = fmt.Errorf("internal error of the condition generator: %v", r)
		}
	}()
	if fn.Blocks == nil {
		return root, fmt.Errorf("%s has no body", short)
	}
	tc := fx.tc
	fx.assume(tc.IdxLt(tc.IdxNum(0), root.entryNAlloc))
	fx.assume(tc.IdxLe(root.entryNAlloc, tc.IdxNum(1<<40)))
	st := &State{Heaps: map[string]*Term{}, Locals: map[*Region]Value{}, Globals: map[*ssa.Global]Value{}, NAlloc: root.entryNAlloc, Ghost: map[string]Value{}}
	var args []Value
	for _, p := range fn.Params {
		a := fx.paramValue(p.Name(), p.Type(), fc.Nullable[p.Name()])
		args = append(args, a)
		root.inputs = append(root.inputs, InputBinding{p.Name(), a})
	}
	for _, fv := range fn.FreeVars {
		a := fx.paramValue(fv.Name(), fv.Type(), false)
		fx.vals[fv] = a
		root.inputs = append(root.inputs, InputBinding{"free:" + fv.Name(), a})
	}
	// non-aliasing of same-typed reference parameters
	if !fc.MayAlias {
		groups := map[string][]*Term{}
		add := func(t types.Type, val Value) {
			switch u := t.Underlying().(type) {
			case *types.Slice:
				groups["A:"+typeKey(u.Elem())] = append(groups["A:"+typeKey(u.Elem())], val.L[0])
			case *types.Pointer:
				if val.P != nil {
					if val.P.Kind == PElem {
						groups["A:"+typeKey(val.P.Root)] = append(groups["A:"+typeKey(val.P.Root)], val.P.Arr)
					}
				} else {
					groups["O:"+typeKey(u.Elem())] = append(groups["O:"+typeKey(u.Elem())], val.L[0])
				}
			}
		}
		for i, p := range fn.Params {
			add(p.Type(), args[i])
		}
		for k, g := range groups {
			if len(g) > 1 {
				// nil slices may coincide (id 0)
				for i := 0; i < len(g); i++ {
					for j := i + 1; j < len(g); j++ {
						fx.assume(Or(Not(Eq(g[i], g[j])), Eq(g[i], tc.IdxNum(0))))
					}
				}
				root.notes = append(root.notes, fmt.Sprintf("assumed: parameters of kind %s do not alias", k))
			}
		}
	}
	for i, p := range fn.Params {
		fx.vals[p] = args[i]
		fx.params[p.Name()] = args[i]
	}
	fx.entry = st.Clone()
	root.entry = fx.entry
	envPre := fx.entryEnv(st)
	root.frame = fx.evalFrame(envPre, fc.Modifies, fc.ModSrc)
	for _, c := range fc.Requires {
		fx.assume(fx.evalBool(envPre, c.Expr))
		c.used++
	}
	nPre := len(root.assumes)
	for _, ln := range fc.Uses {
		var lem *Lemma
		for _, l := range v.cs.Lemmas {
			if l.Name == ln && (l.Pkg == fc.Pkg || lem == nil) {
				lem = l
			}
		}
		if lem == nil {
			fx.fail("uses %s: no such lemma", ln)
		}
		lm := ModeInt
		if lem.Mode == "bv" {
			lm = ModeBV
		}
		if lm != mode {
			fx.fail("uses %s: lemma is in %s mode, function in %s mode", ln, lem.Mode, mode)
		}
		lenv := &Env{fx: fx, st: st, vars: map[string]SV{}, pkg: fx.pkgTypes()}
		root.axioms = append(root.axioms, fx.evalBool(lenv, lem.Expr))
		root.noteOnce("uses lemma " + ln + " (proved as its own obligation)")
	}
	fx.initGhost(st)
	fx.runGhost("entry", st, fx.entryEnv(st))
	rets := fx.runBody(st, True, args)
	// vacuity: hypotheses at entry must be satisfiable
	vo := &Obligation{Name: short + ":vacuity", Func: short, Kind: "vacuity", Path: True, Cond: False, NAssume: nPre, Root: root,
		Desc: "preconditions and entry assumptions are satisfiable (expected: sat)"}
	root.obls = append(root.obls, vo)
	if len(rets) == 0 {
		if len(fc.Ensures) > 0 {
			return root, fmt.Errorf("%s: no reachable return, ensures clauses are vacuous", short)
		}
		return root, nil
	}
	var edges []*Edge
	for i := range rets {
		edges = append(edges, &Edge{st: rets[i].st, reach: rets[i].reach})
	}
	stR := fx.mergeStates(edges)
	reachR := orReach(edges)
	nres := fn.Signature.Results().Len()
	results := make([]Value, nres)
	for k := 0; k < nres; k++ {
		var cur Value
		for i := len(rets) - 1; i >= 0; i-- {
			x := rets[i].vals[k]
			if i == len(rets)-1 {
				cur = x
				continue
			}
			m, e2 := iteValue(rets[i].reach, x, cur)
			if e2 != nil {
				fx.fail("merging results: %v", e2)
			}
			cur = m
		}
		results[k] = cur
	}
	fx.curPos = fn.Pos()
	envPost := fx.postEnv(stR, results)
	for _, c := range fc.Ensures {
		var cond *Term
		if fc.PerReturn {
			var parts []*Term
			for i := range rets {
				e := fx.postEnv(rets[i].st, rets[i].vals)
				parts = append(parts, Implies(rets[i].reach, fx.evalBool(e, c.Expr)))
			}
			cond = And(parts...)
		} else {
			cond = fx.evalBool(envPost, c.Expr)
		}
		fx.addObl(short+":"+c.Label, "ensures", reachR, cond, c.Props, c, "postcondition: "+c.Src)
	}
	// ghost frame: lock states not named in the modifies clause are the same at exit as at entry
	if g1, ok := stR.Heaps["G:lock"]; ok {
		g0 := fx.ghostHeap(fx.entry, "G:lock")
		if g1 != g0 {
			r := BoundVar("r", tc.IdxSort())
			inFrame := False
			for _, it := range root.frame {
				if it.Kind == PGhost {
					inFrame = Or(inFrame, Eq(r, it.Ref))
				}
			}
			cond := Forall([]*Term{r}, Implies(Not(inFrame), Eq(Select(g1, r), Select(g0, r))))
			fx.addObl(short+":lockframe", "frame", reachR, cond, nil, nil, "every mutex not named in the modifies clause is in the same state at exit as at entry")
		}
	}
	return root, nil
}

// contractCall applies callee contract fc at a call site.
func (fx *FnCtx) contractCall(st *State, pc *Term, fc *FuncContract, f *ssa.Function, args []Value, rt types.Type) Value {
	var names []string
	for _, p := range f.Params {
		names = append(names, p.Name())
	}
	return fx.contractCallWithNames(st, pc, fc, names, args, rt, f.Signature)
}

func (fx *FnCtx) contractCallWithNames(st *State, pc *Term, fc *FuncContract, names []string, args []Value, rt types.Type, sig *types.Signature) Value {
	tc := fx.tc
	if fc.AnyMode && fx.V.modeOf(fc) != tc.Mode {
		fx.root.noteOnce("contract of " + fc.Name + " applied across integer modes (declared anymode: its spec expressions are assumed free of wrap-around)")
	}
	if fx.V.modeOf(fc) != tc.Mode && !fc.Trusted && fc.Mode != "" && !fc.AnyMode {
		fx.fail("call to %s crosses integer modes (%s caller, %s callee)", fc.Name, tc.Mode, fc.Mode)
	}
	var pkg *types.Package
	for _, p := range fx.V.prog.AllPackages() {
		if p.Pkg.Path() == fc.Pkg {
			pkg = p.Pkg
		}
	}
	pre := &Env{fx: fx, st: st, vars: map[string]SV{}, pkg: pkg}
	for i, n := range names {
		if i < len(args) {
			pre.vars[n] = SV{V: args[i]}
		}
	}
	assumeLabel := ""
	if top := fx.root.top; top != nil && top.fc != nil && top.fc.AssumePre[fc.Name] != "" {
		assumeLabel = top.fc.AssumePre[fc.Name]
		if assumeLabel == "*" {
			fx.root.noteOnce("ASSUMED in " + top.fn.Name() + ": the preconditions of " + fc.Name + " hold at its call (declared 'assumes pre'; they are conditions on the caller's history)")
		} else {
			fx.root.noteOnce("ASSUMED in " + top.fn.Name() + ": the precondition @" + assumeLabel + " of " + fc.Name + " holds at its call (declared 'assumes pre')")
		}
	}
	for _, c := range fc.Requires {
		cond := fx.evalBool(pre, c.Expr)
		if !(assumeLabel == "*" || (assumeLabel != "" && assumeLabel == c.Label)) {
			o := fx.addObl(fx.oblName("pre("+fc.Name+")"), "requires", pc, cond, c.Props, nil, "precondition of "+fc.Name+": "+c.Src)
			_ = o
		}
		fx.assume(Implies(pc, cond))
	}
	// a callee that panics under a stated condition must not be called under it (nothing recovers)
	for _, c := range fc.Panics {
		cond := Not(fx.evalBool(pre, c.Expr))
		fx.addObl(fx.oblName("nopanic("+fc.Name+")"), "panic", pc, cond, c.Props, nil, "call does not meet the panic condition of "+fc.Name+": "+c.Src)
		fx.assume(Implies(pc, cond))
	}
	items := fx.evalFrame(pre, fc.Modifies, fc.ModSrc)
	// callee frame within caller frame
	for _, it := range items {
		switch it.Kind {
		case PMap:
			// a nil map in the callee's frame cannot be written through
			fx.mapFrameCheck(st, And(pc, Not(Eq(it.Ref, fx.tc.IdxNum(0)))), it.Root, it.Ref)
		case PObj:
			n := it.N
			p := &PtrInfo{Kind: PObj, Ref: it.Ref, Root: it.Root, Off: it.Off, Typ: it.Root}
			_ = n
			fx.frameCheckItem(st, pc, p, it)
		case PElem:
			if it.Arr == nil {
				// arrays(T) of the callee needs arrays(T) in the caller's frame
				ok := False
				for _, ci := range fx.root.frame {
					if ci.Kind == PElem && ci.Arr == nil && types.Identical(ci.Root, it.Root) {
						ok = True
					}
				}
				fx.safety("frame", pc, ok, "callee may modify every array of "+it.Root.String())
			} else if it.Lo == nil {
				fx.frameCheck(st, pc, &PtrInfo{Kind: PElem, Arr: it.Arr, Root: it.Root, Typ: it.Root})
			} else {
				fx.frameCheckRange(st, pc, it.Root, it.Arr, it.Lo, it.Hi)
			}
		}
	}
	preSt := st.Clone()
	preEnv := *pre
	preEnv.st = preSt
	fx.havocFrame(st, pc, items, "call_"+fc.Name)
	nn := Fresh("nalloc_"+fc.Name, tc.IdxSort())
	fx.assume(And(tc.IdxLe(st.NAlloc, nn), tc.IdxLe(nn, tc.IdxNum(1<<61))))
	st.NAlloc = nn
	for _, r := range fx.root.pendingRefs {
		fx.assume(tc.validRef(r, nn))
	}
	fx.root.pendingRefs = nil
	res, facts := tc.FreshValue(rt, "ret_"+fc.Name)
	for _, fct := range facts {
		fx.assume(fct)
	}
	// references in results are valid
	for i, lf := range tc.Layout(rt).Leaves {
		if lf.Kind == "id" && lf.Sort.Kind != SArray {
			fx.assume(tc.IdxLt(res.L[i], nn))
		}
		if lf.Kind == "ref" && lf.Sort.Kind != SArray {
			fx.assume(tc.validRef(res.L[i], nn))
		}
	}
	post := &Env{fx: fx, st: st, vars: pre.vars, pkg: pkg, oldEnv: &preEnv, preNAlloc: preSt.NAlloc}
	if tup, ok := rt.(*types.Tuple); ok {
		off := 0
		for i := 0; i < tup.Len(); i++ {
			n := len(tc.Layout(tup.At(i).Type()).Leaves)
			post.result = append(post.result, Value{T: tup.At(i).Type(), L: res.L[off : off+n]})
			off += n
		}
	} else {
		post.result = []Value{res}
	}
	// slices among the results are well-formed Go values (0 <= len <= cap, bounded sizes)
	for _, rv := range post.result {
		if rv.T != nil && rv.P == nil {
			fx.sliceShape(rv, rv.T, 0, pc)
		}
	}
	if sig != nil {
		post.resNames = map[string]int{}
		rs := sig.Results()
		for i := 0; i < rs.Len(); i++ {
			if n := rs.At(i).Name(); n != "" && n != "_" {
				post.resNames[n] = i
			}
		}
	}
	ghostNames := map[string]bool{}
	for _, g := range fc.Ghost {
		ghostNames[g.Name] = true
	}
	for n := range fc.LocalSpecs {
		ghostNames[n] = true // function-local definitions mean nothing to a caller either
	}
	for _, c := range fc.Ensures {
		if len(ghostNames) > 0 && mentionsIdent(c.Expr, ghostNames) {
			// a postcondition stated through the callee's own ghost variables (witnesses) means
			// nothing to a caller: it is not assumed (leaving an assumption out is sound)
			continue
		}
		if fx.root.boundedK > 0 && hasUnboundedQuant(c.Expr) {
			// bounded instance search looks for concrete failing runs (which are replayed on the real
			// code): a callee postcondition that cannot be made quantifier-free is left out there
			continue
		}
		fx.assume(Implies(pc, fx.evalBool(post, c.Expr)))
	}
	return res
}

// hasUnboundedQuant: the expression contains a quantifier over a whole type.
func hasUnboundedQuant(e SpecExpr) bool {
	switch x := e.(type) {
	case *SQuant:
		if x.Lo == nil {
			return true
		}
		return hasUnboundedQuant(x.Lo) || hasUnboundedQuant(x.Hi) || hasUnboundedQuant(x.Body)
	case *SBin:
		return hasUnboundedQuant(x.L) || hasUnboundedQuant(x.R)
	case *SUn:
		return hasUnboundedQuant(x.X)
	case *SCall:
		for _, a := range x.Args {
			if hasUnboundedQuant(a) {
				return true
			}
		}
	case *SIndex:
		return hasUnboundedQuant(x.X) || hasUnboundedQuant(x.I)
	case *SField:
		return hasUnboundedQuant(x.X)
	}
	return false
}

func (fx *FnCtx) frameCheckItem(st *State, pc *Term, p *PtrInfo, it FrameItem) {
	ok := False
	if it.Ref != nil {
		ok = fx.freshRef(it.Ref)
	}
	for _, mine := range fx.root.frame {
		if mine.Kind != PObj || !types.Identical(mine.Root, it.Root) {
			continue
		}
		if mine.N != 0 && (it.N == 0 || !(mine.Off <= it.Off && it.Off+it.N <= mine.Off+mine.N)) {
			continue
		}
		if mine.Ref == nil {
			ok = True
			continue
		}
		if it.Ref != nil {
			ok = Or(ok, Eq(it.Ref, mine.Ref))
		}
	}
	fx.safety("frame", pc, ok, "callee's modifies frame lies within the caller's: "+it.Src)
}

// VerifyLemma generates the obligation of a lemma over spec functions.
func (v *Verifier) VerifyLemma(l *Lemma) (root *RootCtx, err error) {
	mode := ModeInt
	if l.Mode == "bv" {
		mode = ModeBV
	}
	short := l.Pkg[strings.LastIndex(l.Pkg, "/")+1:] + ".lemma." + l.Name
	root = v.newRoot(short, mode)
	var pkg *ssa.Package
	for _, p := range v.prog.AllPackages() {
		if p.Pkg.Path() == l.Pkg {
			pkg = p
		}
	}
	if pkg == nil {
		return root, fmt.Errorf("lemma %s: package %s not loaded", l.Name, l.Pkg)
	}
	// a dummy function context: lemmas have no code
	var anyFn *ssa.Function
	for _, m := range pkg.Members {
		if f, ok := m.(*ssa.Function); ok {
			anyFn = f
			break
		}
	}
	fx := &FnCtx{V: v, tc: v.tcs[mode], root: root, fn: anyFn, prefix: short, vals: map[ssa.Value]Value{}, params: map[string]Value{}, regions: map[*ssa.Alloc]*Region{}}
	defer func() {
		if r := recover(); r != nil {
			if ee, ok := r.(execError); ok {
				err = ee
				return
			}
			panic(r)
		}
	}()
	st := &State{Heaps: map[string]*Term{}, Locals: map[*Region]Value{}, Globals: map[*ssa.Global]Value{}, NAlloc: root.entryNAlloc, Ghost: map[string]Value{}}
	fx.entry = st
	env := &Env{fx: fx, st: st, vars: map[string]SV{}, pkg: pkg.Pkg}
	cond := fx.evalBool(env, l.Expr)
	cl := &Clause{Kind: "lemma", Props: l.Props, Label: l.Name, Src: l.Src, Line: l.Line, File: l.File}
	fx.addObl(short, "lemma", True, cond, l.Props, cl, "lemma: "+l.Src)
	return root, nil
}

// mentionsIdent: the expression mentions one of the identifiers.
func mentionsIdent(e SpecExpr, names map[string]bool) bool {
	switch x := e.(type) {
	case *SIdent:
		return names[x.Name]
	case *SQuant:
		return (x.Lo != nil && (mentionsIdent(x.Lo, names) || mentionsIdent(x.Hi, names))) || mentionsIdent(x.Body, names)
	case *SBin:
		return mentionsIdent(x.L, names) || mentionsIdent(x.R, names)
	case *SUn:
		return mentionsIdent(x.X, names)
	case *SCall:
		if names[x.Fun] {
			return true
		}
		for _, a := range x.Args {
			if mentionsIdent(a, names) {
				return true
			}
		}
	case *SIndex:
		return mentionsIdent(x.X, names) || mentionsIdent(x.I, names)
	case *SField:
		return mentionsIdent(x.X, names)
	case *SSlice:
		return mentionsIdent(x.X, names) || (x.Lo != nil && mentionsIdent(x.Lo, names)) || (x.Hi != nil && mentionsIdent(x.Hi, names))
	}
	return false
}
